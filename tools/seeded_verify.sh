#!/bin/bash
# usage: seeded_verify.sh <worktree> <change-dir>   -- confirm an externally written change: demo fails with it, passes without, suite passes with it
WT=$1; CH=$2
cd $WT || exit 2
git checkout -q -- kafe2 2>/dev/null
PYTHONPATH=$WT /venv/bin/python $CH/demo.py >/dev/null 2>&1; clean_rc=$?
git apply $CH/patch.diff || { echo "APPLY-FAILED"; exit 2; }
PYTHONPATH=$WT /venv/bin/python $CH/demo.py >/dev/null 2>&1; patched_rc=$?
OUT=$(mktemp -d)
PYTHONPATH=$WT /venv/bin/python -m pytest -q -p no:cacheprovider --timeout=900 --continue-on-collection-errors -n 8 --dist loadfile --junitxml=$OUT/j.xml kafe2/test >/dev/null 2>&1
python3 - "$OUT/j.xml" <<'PY'
import sys,json,xml.etree.ElementTree as ET
b=json.load(open('/root/.vp/BASELINE.json'))
t=ET.parse(sys.argv[1]).getroot()
passed=set()
for tc in t.iter('testcase'):
    if not any(c.tag in ('failure','error','skipped') for c in tc):
        passed.add(tc.get('classname')+'::'+tc.get('name'))
miss=[x for x in b['stable_pass'] if x not in passed]
print("suite_missing=%d"%len(miss), miss[:3])
PY
rm -rf $OUT
git checkout -q -- kafe2
echo "demo_clean_rc=$clean_rc demo_patched_rc=$patched_rc"

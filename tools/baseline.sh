#!/bin/bash
# Run the repo's pinned suite (xdist) and compare with BASELINE.json stable_pass. Prints missing passes.
OUT=$(mktemp -d)
cd /repo && /venv/bin/python -m pytest -q -p no:cacheprovider --timeout=900 --continue-on-collection-errors -n 8 --dist loadfile --junitxml=$OUT/j.xml >/dev/null 2>&1
python3 - "$OUT/j.xml" <<'PY'
import sys,json,xml.etree.ElementTree as ET
b=json.load(open('/root/.vp/BASELINE.json'))
t=ET.parse(sys.argv[1]).getroot()
passed=set()
for tc in t.iter('testcase'):
    if not any(c.tag in ('failure','error','skipped') for c in tc):
        passed.add(tc.get('classname')+'::'+tc.get('name'))
miss=[x for x in b['stable_pass'] if x not in passed]
print("baseline stable_pass=%d passed_now=%d missing=%d"%(len(b['stable_pass']),len(passed),len(miss)))
for m in miss[:20]: print("  MISSING",m)
sys.exit(1 if miss else 0)
PY
rc=$?
rm -rf $OUT
exit $rc

#!/usr/bin/env python3
"""usage: seeded_meta.py <id> <change> <needs> <status> [note]  -- write seeded/<id>/meta.json"""
import json, sys, os
sid, change, needs, status = sys.argv[1:5]
note = sys.argv[5] if len(sys.argv) > 5 else None
chk = sid.split("-")[0]
m = {"id": sid, "breaks_property": chk, "change": change, "needs_to_manifest": needs,
     "written_by": "independent sub-agent given only the property text and a scratch worktree",
     "confirmed": {"demo_fails_with_change": True, "demo_passes_without": True, "baseline_suite_passes_with_change": True,
                   "how": "tools/seeded_verify.sh <worktree> <change dir>"},
     "detection": {"check": chk, "status": status, "how": "tools/seeded_eval.sh /verif/seeded/%s/patch.diff %s" % (sid, chk)}}
if note:
    m["note"] = note
with open(os.path.join(os.path.dirname(os.path.dirname(os.path.abspath(__file__))), "seeded", sid, "meta.json"), "w") as f:
    json.dump(m, f, indent=1)

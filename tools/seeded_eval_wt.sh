#!/bin/bash
# usage: seeded_eval_wt.sh <patch.diff (absolute path)> <check-id> <worktree> [extra args]
# Like seeded_eval.sh, but applies the seeded change in a scratch git worktree of /repo (outside /repo and /verif) and points the check at it
# (KSIM_REPO_PATH), so that several changes can be evaluated side by side and /repo itself is never touched.
# With CORPUS=<name>: the smallest minimised replay of the run is kept as /verif/corpus/<check-id>/<name>.json.
P=$1; C=$2; WT=$3; shift 3
S=$(mktemp -d)
git -C $WT checkout -q -- kafe2
git -C $WT apply $P || { echo "APPLY-FAILED"; exit 2; }
KSIM_REPO_PATH=$WT KSIM_EVIDENCE_DIR=$S/ev KSIM_REPLAY_DIR=$S/rp /verif/check $C quick "$@" > $S/out.txt 2>&1; rc=$?
git -C $WT checkout -q -- kafe2
echo "check=$C exit=$rc $(grep -c '^VIOLATION' $S/out.txt) violation line(s)"
grep -A3 '^VIOLATION' $S/out.txt | grep -E "oracle=|^  [a-zA-Z]" | head -4 | cut -c1-260
grep -E "HARNESS|KNOWN|truncated=True" $S/out.txt | head -3 | cut -c1-200
if [ -n "$CORPUS" ] && [ -d $S/rp/$C ]; then
  f=$(ls -S -r $S/rp/$C/*.json 2>/dev/null | head -1)
  if [ -n "$f" ]; then mkdir -p /verif/corpus/$C; cp $f /verif/corpus/$C/$CORPUS.json; echo "corpus: $CORPUS.json"; fi
fi
rm -rf $S
exit 0

#!/bin/bash
# usage: seeded_intake.sh <check-id> <worktree> <first-index>  -- verify the changes an independent agent left in <worktree>/seeded/change*/ and copy the confirmed ones to /verif/seeded/<id>-<n>/
C=$1; WT=$2; N=$3
for d in $WT/seeded/change*; do
  [ -f $d/patch.diff ] || continue
  r=$(/verif/tools/seeded_verify.sh $WT $d 2>&1 | tr '\n' ' ')
  echo "$C-$N $(basename $d): $r"
  if echo "$r" | grep -q "suite_missing=0" && echo "$r" | grep -q "demo_clean_rc=0 demo_patched_rc=1"; then
    mkdir -p /verif/seeded/$C-$N
    cp $d/patch.diff $d/demo.py $d/README.md /verif/seeded/$C-$N/
    git -C /repo apply --check $d/patch.diff 2>&1 | head -2
    N=$((N+1))
  else
    echo "  NOT CONFIRMED -> dropped"
  fi
done

#!/bin/bash
# usage: seeded_eval.sh <patch.diff (absolute path)> <check-id> [extra args]  -- apply a seeded change to /repo, run one check (quick) into a scratch evidence dir, undo.
# With CORPUS=<name>: the smallest minimised replay of the run is kept as /verif/corpus/<check-id>/<name>.json (replayed by every later run of that check).
P=$1; C=$2; shift 2
S=$(mktemp -d)
git -C /repo apply $P || { echo "APPLY-FAILED"; exit 2; }
KSIM_EVIDENCE_DIR=$S/ev KSIM_REPLAY_DIR=$S/rp /verif/check $C quick "$@" > $S/out.txt 2>&1; rc=$?
git -C /repo checkout -- .
echo "check=$C exit=$rc $(grep -c '^VIOLATION' $S/out.txt) violation line(s)"
grep -A3 '^VIOLATION' $S/out.txt | grep -E "oracle=|^  [a-zA-Z]" | head -4 | cut -c1-260
grep -E "HARNESS|KNOWN" $S/out.txt | head -3 | cut -c1-200
if [ -n "$CORPUS" ] && [ -d $S/rp/$C ]; then
  f=$(ls -S -r $S/rp/$C/*.json 2>/dev/null | head -1)
  if [ -n "$f" ]; then mkdir -p /verif/corpus/$C; cp $f /verif/corpus/$C/$CORPUS.json; echo "corpus: $CORPUS.json"; fi
fi
rm -rf $S
exit 0

#!/bin/bash
# usage: seeded_eval.sh <patch.diff> <check-id> [extra args]  -- apply a seeded change to /repo, run one check (quick) into a scratch evidence dir, undo.
P=$1; C=$2; shift 2
S=$(mktemp -d)
git -C /repo apply $P || { echo "APPLY-FAILED"; exit 2; }
KSIM_EVIDENCE_DIR=$S/ev KSIM_REPLAY_DIR=$S/rp /verif/check $C quick "$@" > $S/out.txt 2>&1; rc=$?
git -C /repo checkout -- .
echo "check=$C exit=$rc $(grep -c '^VIOLATION' $S/out.txt) violation line(s)"
grep -A3 '^VIOLATION' $S/out.txt | grep -E "oracle=|^  [a-zA-Z]" | head -4 | cut -c1-260
grep -E "HARNESS|KNOWN" $S/out.txt | head -3 | cut -c1-200
rm -rf $S
exit 0

"""SimFS: in-memory file system behind kafe2's open() seam (N11) with fault injection (F3).

Byte-exact text semantics for the three modes kafe2 uses: 'r', 'w', 'a'.  Append mode implements O_APPEND: every write lands at
the CURRENT END whatever the position; truncate(0) shortens the file (a naive buffer would turn truncate+write into NUL padding).
Faults: open raises OSError; write raises OSError(ENOSPC) after k characters (torn file); truncate raises; read returns a prefix.
"""
import errno
import io


class SimFile(object):
    def __init__(self, fs, path, mode):
        self.fs = fs
        self.name = path
        self.mode = mode
        self.closed = False
        self.pos = 0
        if "w" in mode:
            fs.files[path] = ""
            fs.stats["truncating_open"] += 1
        elif "a" in mode:
            fs.files.setdefault(path, "")
            self.pos = len(fs.files[path])
        elif path not in fs.files:
            raise FileNotFoundError(errno.ENOENT, "No such file or directory (SimFS)", path)
        self.read_limit = fs.take_fault("short_read")

    # -- context protocol (kafe2 calls __exit__() without arguments)
    def __enter__(self):
        return self

    def __exit__(self, *a):
        self.close()

    def close(self):
        self.closed = True

    def flush(self):
        pass

    def readable(self):
        return "r" in self.mode

    def writable(self):
        return "r" not in self.mode

    def seekable(self):
        return True

    def tell(self):
        return self.pos

    def seek(self, offset, whence=0):
        n = len(self.fs.files[self.name])
        self.pos = offset if whence == 0 else (self.pos + offset if whence == 1 else n + offset)
        return self.pos

    def read(self, size=-1):
        if "r" not in self.mode:
            raise io.UnsupportedOperation("not readable")
        data = self.fs.files[self.name]
        if self.read_limit is not None:
            data = data[: self.read_limit]
            self.fs.stats["fault_short_read_fired"] += 1
        if size is None or size < 0:
            out = data[self.pos:]
        else:
            out = data[self.pos:self.pos + size]
        self.pos += len(out)
        return out

    def readline(self):
        data = self.fs.files[self.name]
        i = data.find("\n", self.pos)
        out = data[self.pos:] if i < 0 else data[self.pos:i + 1]
        self.pos += len(out)
        return out

    def __iter__(self):
        while True:
            ln = self.readline()
            if not ln:
                return
            yield ln

    def write(self, s):
        if "r" in self.mode:
            raise io.UnsupportedOperation("not writable")
        budget = self.fs.write_budget
        if budget is not None:
            if len(s) > budget:
                part = s[:budget]
                self._put(part)
                self.fs.write_budget = 0
                self.fs.stats["fault_enospc_fired"] += 1
                raise OSError(errno.ENOSPC, "No space left on device (SimFS)")
            self.fs.write_budget = budget - len(s)
        self._put(s)
        return len(s)

    def _put(self, s):
        data = self.fs.files[self.name]
        if "a" in self.mode:
            if data and self.pos < len(data):
                self.fs.stats["append_after_seek_or_truncate"] += 1
            data = data + s  # O_APPEND
            self.pos = len(data)
        else:
            data = data[: self.pos] + s + data[self.pos + len(s):]
            self.pos += len(s)
        self.fs.files[self.name] = data

    def truncate(self, size=None):
        if self.fs.take_fault("truncate_raises"):
            self.fs.stats["fault_truncate_fired"] += 1
            raise IOError(errno.EIO, "truncate failed (SimFS)")
        size = self.pos if size is None else size
        old = self.fs.files[self.name]
        if size < len(old):
            self.fs.stats["truncate_shortened_longer_file"] += 1
        self.fs.files[self.name] = old[:size] + "\0" * max(0, size - len(old))
        return size


class SimFS(object):
    def __init__(self):
        self.files = {}
        self.faults = {}  # kind -> value (consumed by the next applicable call)
        self.write_budget = None
        self.stats = {"truncating_open": 0, "fault_short_read_fired": 0, "fault_enospc_fired": 0, "fault_truncate_fired": 0, "fault_open_fired": 0,
                      "append_after_seek_or_truncate": 0, "truncate_shortened_longer_file": 0, "opens": 0}

    def take_fault(self, kind):
        return self.faults.pop(kind, None)

    def open(self, path, mode="r", *a, **k):
        self.stats["opens"] += 1
        if self.take_fault("open_raises"):
            self.stats["fault_open_fired"] += 1
            raise OSError(errno.EACCES, "Permission denied (SimFS)", path)
        return SimFile(self, str(path), mode)

"""Self-contained model functions for serialisation tests (their source is written into YAML and re-executed with numpy as np)."""
import numpy as np


def io_linear(x, a=1.0, b=0.5):
    return a * x + b


def io_quadratic(x, a=0.5, b=1.0, c=2.0):
    return a * x**2 + b * x + c


def io_expo(x, A=2.0, k=0.3):
    return A * np.exp(k * x)


def io_idx4(a=1.5, b=2.0):
    return a * np.arange(1.0, 5.0) + b


def io_idx6(a=1.0, b=1.0, c=3.0):
    return a * np.arange(1.0, 7.0) + b * np.sqrt(np.arange(1.0, 7.0)) + c


def io_normal(x, mu=0.2, sigma=1.3):
    return np.exp(-0.5 * ((x - mu) / sigma) ** 2) / np.sqrt(2.0 * np.pi * sigma**2)


def io_custom_cost(a=1.0, b=2.0):
    return (a - 1.3) ** 2 / 0.04 + (b + 0.4) ** 2 / 0.09 + 0.5 * a * b


def io_custom_cost3(p=0.5, q=1.0, r=-1.0):
    return (p - 0.7) ** 2 / 0.01 + (q - 1.5) ** 2 / 0.25 + (r + 0.2) ** 2 + 0.1 * p * q * r


# user functions that carry the NAME and the argument names of an entry of kafe2's function library but another body:
# what is written to a file must be the function, not its name
def linear(x, a=1.0, b=0.5):
    return a + b * x


def quadratic_model(x, a=0.5, b=1.0, c=2.0):
    return a + b * x + c * x**2


CUSTOM = {"io_custom_cost": (io_custom_cost, ["a", "b"], [1.0, 2.0]), "io_custom_cost3": (io_custom_cost3, ["p", "q", "r"], [0.5, 1.0, -1.0])}

XY = {"linear": (linear, ["a", "b"], [1.0, 0.5]), "quadratic_model": (quadratic_model, ["a", "b", "c"], [0.5, 1.0, 2.0]),
      # model functions given as names of kafe2's function library
      "lib:linear_model": ("linear_model", ["a", "b"], [1.0, 1.0]), "lib:quadratic": ("quadratic", ["a", "b", "c"], [1.0, 1.0, 1.0]),
      "lib:exponential_model": ("exponential_model", ["A_0", "x_0"], [1.0, 1.0]),
      "io_linear": (io_linear, ["a", "b"], [1.0, 0.5]), "io_quadratic": (io_quadratic, ["a", "b", "c"], [0.5, 1.0, 2.0]), "io_expo": (io_expo, ["A", "k"], [2.0, 0.3])}
IDX = {"io_idx4": (io_idx4, 4, ["a", "b"], [1.5, 2.0]), "io_idx6": (io_idx6, 6, ["a", "b", "c"], [1.0, 1.0, 3.0])}


def fn(mk):
    """The Python callable behind an XY entry (library names are resolved through kafe2's own table)."""
    f = XY[mk][0]
    if callable(f):
        return f
    import importlib

    return importlib.import_module("kafe2.fit.util.function_library").STRING_TO_FUNCTION[f]

"""Seams N1-N12 (DESIGN 1.1): everything nondeterministic goes through SimWorld.

Rule: wrap, never replace.  A patch may run before/after the repo function or substitute a data
container or a dependency (clock, open, uuid4); it never re-implements repo logic.
"""
import gc
import importlib
import io
import logging
import sys
import warnings
import weakref  # noqa: F401

import numpy as np

from .core import Streams, h64

_nexus = importlib.import_module("kafe2.core.fitters.nexus")
_nexus_fitter = importlib.import_module("kafe2.core.fitters.nexus_fitter")
_repr_base = importlib.import_module("kafe2.fit.representation._base")

_CURRENT = [None]  # the active SimWorld (one per process, runs are sequential)


class SeededSet(object):
    """Set-compatible container for weak parent references with seeded iteration order.

    Like a real set it raises RuntimeError when its size changes while it is being iterated
    (detected at the next step of the iterator, as CPython does).
    policy: 'shuffle' (new permutation per iteration), 'insertion', 'reverse'.
    """

    __slots__ = ("_d", "_world")

    def __init__(self, world):
        self._d = {}
        self._world = world

    def add(self, x):
        self._d[x] = None

    def remove(self, x):
        del self._d[x]  # KeyError like set.remove

    def discard(self, x):
        self._d.pop(x, None)

    def __contains__(self, x):
        return x in self._d

    def __len__(self):
        return len(self._d)

    def __iter__(self):
        w = self._world
        items = list(self._d)
        n = len(items)
        if n > 1 and w is not None and w.active:
            pol = w.order_policy
            if pol == "shuffle":
                w.order_rng.shuffle(items)
                w.n_order_choices += 1
            elif pol == "reverse":
                items.reverse()
        for x in items:
            if len(self._d) != n:
                raise RuntimeError("Set changed size during iteration")
            yield x
        if len(self._d) != n:
            raise RuntimeError("Set changed size during iteration")


class _SeededUUID(object):
    """Stand-in for the `uuid` module inside kafe2.core.fitters.nexus (only uuid4().hex is used)."""

    class _U(object):
        __slots__ = ("hex",)

        def __init__(self, h):
            self.hex = h

    def __init__(self, real):
        self._real = real

    def uuid4(self):
        w = _CURRENT[0]
        if w is None or not w.active:
            return self._real.uuid4()
        return self._U("%032x" % w.uuid_rng.getrandbits(128))

    def __getattr__(self, name):
        return getattr(self._real, name)


class SimClock(object):
    """Simulated wall clock: advances only when the scheduler says so (or by scripted jumps)."""

    def __init__(self):
        self.now = 1.0e9
        self.jumps = []  # scripted jumps consumed by successive reads
        self.reads = 0
        self.total_advance = 0.0

    def time(self):
        self.reads += 1
        if self.jumps:
            d = self.jumps.pop(0)
            self.now += d
            self.total_advance += abs(d)
        return self.now


def _sim_time():
    w = _CURRENT[0]
    if w is None or not w.active:
        import time as _t

        return _t.time()
    return w.clock.time()


_installed = [False]
_frozen = [False]
_orig = {}


def install():
    """Install the permanent (process-wide) wrappers.  They are transparent when no world is active."""
    if _installed[0]:
        return
    _installed[0] = True

    # N5: container of weak parent refs.  Wrapped __init__: original runs first, then the data
    # container is swapped.  Repo logic (add_parent/remove_parent/iter_parents) runs unmodified.
    _orig_init = _nexus.NodeBase.__init__
    _orig["NodeBase.__init__"] = _orig_init

    def _init(self, *a, **k):
        _orig_init(self, *a, **k)
        w = _CURRENT[0]
        if w is not None and w.active and w.order_policy != "native":
            self._parents = SeededSet(w)

    _nexus.NodeBase.__init__ = _init

    # N2: uuid4 for unnamed nodes
    _orig["nexus.uuid"] = _nexus.uuid
    _nexus.uuid = _SeededUUID(_nexus.uuid)

    # N3: wall clock in do_fit
    _orig["nexus_fitter.time"] = _nexus_fitter.time
    _nexus_fitter.time = _sim_time

    # N4: preface comment (user, date)
    class _DT(object):
        class datetime(object):
            @staticmethod
            def now():
                import datetime as _d

                w = _CURRENT[0]
                if w is None or not w.active:
                    return _d.datetime.now()
                return _d.datetime(2020, 1, 1, 12, 0, 0)

    class _GP(object):
        @staticmethod
        def getuser():
            w = _CURRENT[0]
            if w is not None and w.active and w.getuser_raises:
                w.getuser_raises -= 1
                raise KeyError("getpwuid(): uid not found: 12345")
            return "simuser"

    # F6: generated source names.  The original generator runs unless a collision is scripted for this draw.
    for modname in ("kafe2.fit._base.container", "kafe2.fit.multi.fit"):
        _m = importlib.import_module(modname)
        _ra = _m.random_alphanumeric

        def _random_alphanumeric(size, _ra=_ra):
            w = _CURRENT[0]
            if w is not None and w.active and w.collide_names:
                w.n_collisions_fired += 1
                return w.collide_names.pop(0)
            return _ra(size)

        _m.random_alphanumeric = _random_alphanumeric

    # N11: the file system.  kafe2's modules call the builtin open(); a module attribute `open` is injected that delegates to
    # the active world's SimFS (and to the real builtin when no world is active).
    import builtins

    def _open(path, mode="r", *a, **k):
        w = _CURRENT[0]
        if w is not None and w.active and w.fs is not None:
            return w.fs.open(path, mode, *a, **k)
        return builtins.open(path, mode, *a, **k)

    for modname in ("kafe2.fit.io.handle", "kafe2.fit._base.fit"):
        importlib.import_module(modname).open = _open

    _orig["repr.datetime"] = _repr_base.datetime
    _repr_base.datetime = _DT
    _orig["repr.getpass"] = _repr_base.getpass
    _repr_base.getpass = _GP


class SimWorld(object):
    """Context manager for one simulated run."""

    def __init__(self, seed, order_policy="shuffle", gc_policy="scheduled"):
        install()
        self.seed = int(seed)
        self.streams = Streams(seed)
        self.order_rng = self.streams("order")
        self.uuid_rng = self.streams("uuid")
        self.order_policy = order_policy
        self.gc_policy = gc_policy
        self.clock = SimClock()
        self.active = False
        self.n_order_choices = 0
        self.getuser_raises = 0
        self.collide_names = []
        self.n_collisions_fired = 0
        self.fs = None
        self.warnings = []
        self.stdout = None
        self._saved = {}

    def __enter__(self):
        if _CURRENT[0] is not None and _CURRENT[0].active:
            raise RuntimeError("nested SimWorld")
        _CURRENT[0] = self
        self.active = True
        # N1 global numpy RNG (names of unnamed sources)
        self._saved["np_state"] = np.random.get_state()
        np.random.seed(h64(self.seed, "names") % (2**32))
        # N6 GC only when scheduled
        self._saved["gc"] = gc.isenabled()
        if not _frozen[0]:
            # everything imported so far goes to the permanent generation: scheduled collections then only
            # look at objects created by runs (35 ms -> 0.1 ms per collection)
            gc.collect()
            gc.freeze()
            _frozen[0] = True
        gc.collect()
        if self.gc_policy != "native":
            gc.disable()
        # N9 process-global state -> recorded baseline
        self._saved["printopts"] = np.get_printoptions()
        np.set_printoptions(edgeitems=3, infstr="inf", linewidth=75, nanstr="nan", precision=8, suppress=False, threshold=1000, formatter=None)
        self._saved["loglevel"] = logging.root.level
        logging.root.setLevel(logging.WARNING)
        self._wctx = warnings.catch_warnings(record=True)
        self.warnings = self._wctx.__enter__()
        warnings.simplefilter("always")
        self._saved["stdout"] = sys.stdout
        self.stdout = io.StringIO()
        sys.stdout = self.stdout
        return self

    def __exit__(self, *exc):
        sys.stdout = self._saved["stdout"]
        self._wctx.__exit__(None, None, None)
        logging.root.setLevel(self._saved["loglevel"])
        np.set_printoptions(**self._saved["printopts"])
        if self._saved["gc"]:
            gc.enable()
        np.random.set_state(self._saved["np_state"])
        self.active = False
        _CURRENT[0] = None
        return False

    def collect(self):
        """F7: scheduled garbage collection."""
        return gc.collect()

"""Run one case under a SimWorld; classify outcomes; shrink; replay files."""
import json
import os
import traceback

from .core import Discard, EventLog, HarnessError, RunResult, Violation, digest_of  # noqa: F401
from .seams import SimWorld

KAFE2_DIR = None


def _kafe2_dir():
    global KAFE2_DIR
    if KAFE2_DIR is None:
        import kafe2

        KAFE2_DIR = os.path.dirname(os.path.abspath(kafe2.__file__))
    return KAFE2_DIR


def _raised_inside_sut(tb):
    """True if the innermost frames of the traceback are kafe2 (or its peers called from kafe2)."""
    frames = traceback.extract_tb(tb)
    kd = _kafe2_dir()
    vd = os.path.dirname(os.path.abspath(__file__))
    transparent = ("seams.py", "simfs.py", "userlib.py")  # data containers / dependencies / user functions the SUT calls
    last_k = -1
    last_v = -1
    for i, f in enumerate(frames):
        fn = os.path.abspath(f.filename)
        if fn.startswith(kd):
            last_k = i
        elif fn.startswith(vd) and os.path.basename(fn) not in transparent:
            last_v = i
    return last_k > last_v


class _NoReturn(BaseException):
    """Raised by the per-run alarm; BaseException so that 'except Exception' inside the code under test does not swallow it."""


def get_machine(name):
    from . import machines

    return machines.get(name)


def run_case(machine, case, keep_records=False):
    """Execute a case.  Returns RunResult (violation as json dict or None).  Raises HarnessError."""
    knobs = case.get("knobs", {})
    world = SimWorld(case["seed"], order_policy=knobs.get("order", "shuffle"), gc_policy=knobs.get("gc", "scheduled"))
    res = RunResult()
    log = EventLog(case["seed"], keep=keep_records)
    prop = case.get("property") or machine.properties[0]
    herr = None
    cap = getattr(machine, "no_return_cap", None)  # machines whose runs take milliseconds: an operation that does not come back is a verdict
    if cap:
        import signal

        def _on_alarm(signum, frame):
            raise _NoReturn()

        _old = signal.signal(signal.SIGALRM, _on_alarm)
        signal.setitimer(signal.ITIMER_REAL, float(cap))
    with world:
        try:
            try:
                machine.execute(case, world, res, log)
            finally:
                if cap:
                    signal.setitimer(signal.ITIMER_REAL, 0.0)
                    signal.signal(signal.SIGALRM, _old)
        except _NoReturn:
            res.violation = Violation(prop, "no-return", "operation", "an operation on the real objects did not return within %d s of wall time (runs of this machine take "
                                      "milliseconds): endless recursion / re-evaluation in a graph that should have stayed acyclic?" % cap, step=log.n).to_json()
        except Violation as v:
            res.derived_case = v.extra.pop("derived_case", None)
            res.violation = v.to_json()
        except Discard as d:
            res.discard = d.reason
        except RecursionError:
            res.violation = Violation(prop, "unexpected-exception", "RecursionError", "RecursionError while executing a valid operation").to_json()
        except Exception as e:  # noqa
            import sys

            tb = sys.exc_info()[2]
            if _raised_inside_sut(tb):
                fr = traceback.extract_tb(tb)[-1]
                res.violation = Violation(
                    prop,
                    "unexpected-exception",
                    type(e).__name__,
                    "kafe2 raised %s on an operation that is valid for the reference model: %s (%s:%d)"
                    % (type(e).__name__, str(e)[:200], os.path.basename(fr.filename), fr.lineno),
                    step=log.n,
                ).to_json()
            else:
                herr = "".join(traceback.format_exception(type(e), e, tb))
    if herr is not None:
        raise HarnessError(herr)
    if res.violation is not None:
        log.add("VIOLATION", res.violation["oracle"], [res.violation["observable"], res.violation.get("step")])
    res.sim_time = world.clock.total_advance
    if world.n_collisions_fired:
        res.stats["fault_F6_name_collision_fired"] = res.stats.get("fault_F6_name_collision_fired", 0) + world.n_collisions_fired
    res.stats["order_choices"] = res.stats.get("order_choices", 0) + world.n_order_choices
    res.digest = log.digest()
    res.records = log.records
    return res


def vclass(vj):
    return (vj["property"], vj["oracle"], vj["observable"])


def shrink(machine, case, target_class, max_runs=600, max_seconds=60.0):
    """Delta-debug the op list, then simplify single ops and knobs, keeping the same violation class (bounded in runs and wall time)."""
    import time as _time

    runs = [0]
    _t0 = _time.time()
    _orig_max = max_runs

    def fails(c):
        runs[0] += 1
        if _time.time() - _t0 > max_seconds:
            runs[0] = max(runs[0], _orig_max)  # wall budget used up: stop shrinking, keep what we have
            return False
        try:
            r = run_case(machine, c)
        except HarnessError:
            return False
        return r.violation is not None and vclass(r.violation) == target_class

    def with_ops(ops, knobs=None):
        c = dict(case)
        c["ops"] = ops
        if knobs is not None:
            c["knobs"] = knobs
        return c

    ops = list(case["ops"])
    knobs = dict(case.get("knobs", {}))
    if not fails(with_ops(ops, knobs)):
        return case, runs[0], False
    # 1. ddmin over chunks
    n = 2
    while len(ops) >= 2 and runs[0] < max_runs:
        chunk = max(1, len(ops) // n)
        removed = False
        i = 0
        while i < len(ops) and runs[0] < max_runs:
            cand = ops[:i] + ops[i + chunk:]
            if cand and fails(with_ops(cand, knobs)):
                ops = cand
                removed = True
            else:
                i += chunk
        if not removed:
            if chunk == 1:
                break
            n = min(len(ops), n * 2)
    # 2. simplify single ops
    changed = True
    while changed and runs[0] < max_runs:
        changed = False
        for i in range(len(ops)):
            for simp in machine.simplify(ops[i]):
                cand = ops[:i] + [simp] + ops[i + 1:]
                if fails(with_ops(cand, knobs)):
                    ops = cand
                    changed = True
                    break
    # 3. simplify knobs
    changed = True
    while changed and runs[0] < max_runs:
        changed = False
        for k2 in machine.simplify_knobs(knobs):
            if fails(with_ops(ops, k2)):
                knobs = k2
                changed = True
                break
    return with_ops(ops, knobs), runs[0], True


def write_replay(path, check_id, case, res, hashseed, extra=None):
    d = {
        "check": check_id,
        "machine": case["machine"],
        "pythonhashseed": hashseed,
        "case": case,
        "violation": res.violation,
        "digest": res.digest,
        "events": res.records,
    }
    if extra:
        d.update(extra)
    os.makedirs(os.path.dirname(path), exist_ok=True)
    with open(path, "w") as f:
        json.dump(d, f, indent=1, sort_keys=True, default=str)
    return path

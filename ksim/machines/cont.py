"""M-CONT (C02): histories of add / disable / enable / value changes / reads on data and model containers.

Reference: list of declared sources + current values -> V = sum_enabled (sigma sigma^T) o rho.
Invariants after every read: value equals the reference (rtol 1e-12), err = sqrt(diag), cor = V/sqrt(dd^T),
inverse * V = I when cond <= 1e8, V symmetric and PSD; identical (sources, enabled, values) state => identical
total to 1e-14 (disable; enable restores exactly).
Faults: F6 (name collision of generated names), F7 (gc).
"""
import importlib

import numpy as np

from ..core import Machine, Streams, Violation, h64
from ..refmodel.container import RefContainer, RefSource, ref_cor, ref_err

PROP = "C02"

KINDS = ("indexed", "xy", "hist", "indexed_model", "xy_model", "hist_model")
RTOL = 1e-12


def _kf():
    return importlib.import_module("kafe2.fit")


# -- model functions (closures are fine here: no serialisation in this machine)


def idx_model(n):
    base = np.arange(1, n + 1, dtype=float)

    def idx_affine(a, b):
        return a * base + b

    return idx_affine


def xy_quad(x, a, b, c):
    return a * x * x + b * x + c


def hist_density(x, mu, s):
    return np.exp(-0.5 * ((x - mu) / s) ** 2) / np.sqrt(2.0 * np.pi * s**2)


def hist_antider(x, mu, s):
    from scipy.special import erf

    return 0.5 * erf((np.asarray(x) - mu) / (np.sqrt(2.0) * s))


def rnd_vals(rng, n, allow_zero=False, allow_neg=True):
    out = []
    for _ in range(n):
        v = rng.choice([0.5, 1.0, 1.5, 2.0, 3.0, 4.5, 7.0, 0.25, 10.0]) * (rng.choice([1, 1, -1]) if allow_neg else 1)
        if allow_zero and rng.random() < 0.08:
            v = 0.0
        out.append(float(v))
    return out


def rnd_errs(rng, n, scalar_ok=True):
    if scalar_ok and rng.random() < 0.4:
        return float(rng.choice([0.1, 0.2, 0.5, 1.0, 0.05, 0.0]))
    return [float(rng.choice([0.1, 0.2, 0.3, 0.5, 1.0, 0.05, 0.0 if rng.random() < 0.2 else 0.15])) for _ in range(n)]


def rnd_psd(rng, n):
    """Exactly symmetric PSD matrix with moderate condition."""
    k = rng.randint(1, n + 1)
    B = np.array([[rng.choice([-1.0, -0.5, 0.0, 0.5, 1.0, 0.25]) for _ in range(k)] for _ in range(n)])
    M = B.dot(B.T) + np.diag([rng.choice([0.0, 0.1, 0.25]) for _ in range(n)])
    M = 0.5 * (M + M.T)
    return M.tolist()


def rnd_cor(rng, n):
    c = rng.choice([0.0, 0.2, 0.5, 0.9])
    M = np.full((n, n), c)
    np.fill_diagonal(M, 1.0)
    return M.tolist()


class ContMachine(Machine):
    name = "cont"
    no_return_cap = 20  # seconds of wall time; a run takes milliseconds
    properties = (PROP,)

    def generate(self, seed, tier, idx):
        st = Streams(seed)
        sw = st("swarm")
        rng = st("ops")
        kind = KINDS[idx % len(KINDS)] if sw.random() < 0.7 else sw.choice(KINDS)
        n = sw.randint(1, 6 if tier == "quick" else 10)
        n_ops = sw.randint(4, 20 if tier == "quick" else 40)
        naxes = 2 if kind.startswith("xy") else 1
        new = {"kind": kind, "n": n}
        if kind == "indexed":
            new["data"] = rnd_vals(rng, n, allow_zero=True)
        elif kind == "xy":
            new["x"] = rnd_vals(rng, n, allow_zero=True)
            new["y"] = rnd_vals(rng, n, allow_zero=True)
        elif kind == "hist":
            new["edges"] = [float(i) for i in range(n + 1)]
            new["entries"] = [float(rng.choice(range(-1, n + 1))) + 0.5 for _ in range(rng.randint(0, 12))]
        elif kind == "indexed_model":
            new["pars"] = [float(rng.choice([0.5, 1.0, 2.0, -1.0])), float(rng.choice([0.0, 1.0, -3.0]))]
        elif kind == "xy_model":
            new["x"] = rnd_vals(rng, n)
            new["pars"] = [float(rng.choice([0.5, 1.0, -1.0])), float(rng.choice([0.0, 1.0, 2.0])), float(rng.choice([0.0, 1.0, -2.0]))]
        elif kind == "hist_model":
            new["edges"] = [float(i) - n / 2.0 for i in range(n + 1)]
            new["pars"] = [float(rng.choice([0.0, 0.5, -1.0])), float(rng.choice([1.0, 2.0, 0.5]))]
        ops = [["new", new]]
        w = {"add_simple": sw.choice([2, 4]), "add_matrix": sw.choice([0, 1, 3]), "disable": sw.choice([0, 1, 3]), "enable": sw.choice([0, 1, 3]),
             "change": sw.choice([1, 3, 5]), "read": sw.choice([3, 6, 10]), "gc": sw.choice([0, 0, 1]), "collide": sw.choice([0, 0, 1])}
        kinds = list(w)
        forced = kinds[(idx // len(KINDS)) % len(kinds)]
        w[forced] = max(w[forced], 3)
        rel_p = sw.choice([0.0, 0.3, 0.6])
        pool = [k for k in kinds for _ in range(w[k])]
        nsrc = 0
        for _ in range(n_ops):
            k = rng.choice(pool)
            ax = rng.randrange(naxes)
            axspec = ax if naxes == 1 else rng.choice([[0, "x", "0"], [1, "y", "1"]][ax])
            if k == "add_simple" and nsrc < 6:
                name = "e%d" % nsrc if rng.random() < 0.6 else None
                ops.append(["add_simple", name, axspec, rnd_errs(rng, n), rng.choice([0.0, 0.0, 1.0, 0.3, 0.75]), rng.random() < rel_p])
                nsrc += 1
            elif k == "add_matrix" and nsrc < 6:
                name = "e%d" % nsrc if rng.random() < 0.6 else None
                if rng.random() < 0.5:
                    ops.append(["add_matrix", name, axspec, "cov", rnd_psd(rng, n), None, rng.random() < rel_p])
                else:
                    ev = rnd_errs(rng, n, scalar_ok=False)
                    ops.append(["add_matrix", name, axspec, "cor", rnd_cor(rng, n), ev, rng.random() < rel_p])
                nsrc += 1
            elif k in ("disable", "enable") and nsrc:
                i = rng.randrange(nsrc)
                ops.append([k, i])
                if k == "disable" and rng.random() < 0.5:
                    if rng.random() < 0.5:
                        ops.append(["read", rng.choice(["cov", "err"]), ax])
                    ops.append(["enable", i])
            elif k == "change":
                ops.append(self._change(rng, kind, n))
            elif k == "read":
                ops.append(["read", rng.choice(["err", "cov", "cor", "inv", "total.error", "total.cov_mat", "total.error_rel"]), ax])
            elif k == "gc":
                ops.append(["gc"])
            elif k == "collide":
                ops.append(["collide"])
                ops.append(["add_simple", None, axspec, rnd_errs(rng, n), 0.0, False])
                nsrc += 1
        for ax in range(naxes):
            ops.append(["read", "cov", ax])
            ops.append(["read", "inv", ax])
        if st("scale").random() < 0.12:
            # units: the same uncertainties at the 1e-5 scale (times in seconds with 10 us errors): nothing in the statement depends on the magnitude
            f = 1e-5
            for op in ops:
                if op[0] == "add_simple":
                    op[3] = [v * f for v in op[3]] if isinstance(op[3], list) else op[3] * f
                elif op[0] == "add_matrix":
                    if op[3] == "cov":
                        op[4] = (np.asarray(op[4], dtype=float) * f * f).tolist()
                    else:
                        op[5] = [v * f for v in op[5]]
        return {"machine": self.name, "seed": seed, "knobs": {"order": "insertion"}, "ops": ops}

    def _change(self, rng, kind, n):
        if kind == "indexed":
            return ["set_data", rnd_vals(rng, n, allow_zero=True)]
        if kind == "xy":
            r = rng.random()
            if r < 0.35:
                return ["set_x", rnd_vals(rng, n, allow_zero=True)]
            if r < 0.7:
                return ["set_y", rnd_vals(rng, n, allow_zero=True)]
            return ["set_xy", rnd_vals(rng, n, allow_zero=True), rnd_vals(rng, n, allow_zero=True), rng.random() < 0.3]
        if kind == "hist":
            if rng.random() < 0.8:
                return ["fill", [float(rng.choice(range(-1, n + 1))) + 0.5 for _ in range(rng.randint(1, 5))]]
            sh = rng.choice([0.25, 0.5, -0.25])
            return ["rebin", [float(i) + sh for i in range(n + 1)]]
        if kind == "indexed_model":
            return ["set_pars", [float(rng.choice([0.5, 1.0, 2.0, -1.0, 3.0])), float(rng.choice([0.0, 1.0, -3.0, 0.5]))]]
        if kind == "xy_model":
            if rng.random() < 0.6:
                return ["set_pars", [float(rng.choice([0.5, 1.0, -1.0, 2.0])), float(rng.choice([0.0, 1.0, 2.0])), float(rng.choice([0.0, 1.0, -2.0]))]]
            return ["set_model_x", rnd_vals(rng, n)]
        return ["set_pars", [float(rng.choice([0.0, 0.5, -1.0, 1.0])), float(rng.choice([1.0, 2.0, 0.5, 1.5]))]]

    def simplify(self, op):
        k = op[0]
        if k == "add_simple":
            if isinstance(op[3], list):
                yield [k, op[1], op[2], 0.5, op[4], op[5]]
            if op[4] != 0.0:
                yield [k, op[1], op[2], op[3], 0.0, op[5]]
            if op[1] is None:
                yield [k, "ex", op[2], op[3], op[4], op[5]]
            if op[2] not in (0, 1):
                yield [k, op[1], {"x": 0, "0": 0, "y": 1, "1": 1}[op[2]], op[3], op[4], op[5]]
        if k == "add_matrix" and op[2] not in (0, 1):
            yield [k, op[1], {"x": 0, "0": 0, "y": 1, "1": 1}[op[2]], op[3], op[4], op[5], op[6]]

    def case_tag(self, case):
        kind = case["ops"][0][1]["kind"] if case["ops"] and case["ops"][0][0] == "new" else "?"
        rel = any((op[0] == "add_simple" and op[5]) or (op[0] == "add_matrix" and op[6]) for op in case["ops"])
        return kind + (":rel" if rel else "")

    def fingerprint(self, case, v):
        kinds = []
        for op in case["ops"]:
            k = op[0]
            if k == "new":
                k = "new:" + op[1]["kind"]
            elif k == "add_simple":
                k = "add_simple:" + ("rel" if op[5] else "abs")
            elif k == "add_matrix":
                k = "add_matrix:" + ("rel" if op[6] else "abs") + (":named-axis" if op[2] not in (0, 1) else "")
            elif k == "read":
                k = "read"
            if k not in kinds:
                kinds.append(k)
        return ";".join([v.get("oracle", "?"), v.get("observable", "?")] + kinds)

    # ------------------------------------------------------------------ execution
    def execute(self, case, world, res, log):
        kf = _kf()
        ops = case["ops"]
        if not ops or ops[0][0] != "new":
            return
        c = ops[0][1]
        kind, n = c["kind"], c["n"]
        naxes = 2 if kind.startswith("xy") else 1
        ref = RefContainer(naxes, n)
        S = {}  # mutable reference values

        if kind == "indexed":
            obj = kf.IndexedContainer(list(c["data"]))
            S["v"] = [np.array(c["data"], dtype=float)]
        elif kind == "xy":
            obj = kf.XYContainer(list(c["x"]), list(c["y"]))
            S["v"] = [np.array(c["x"], dtype=float), np.array(c["y"], dtype=float)]
        elif kind == "hist":
            obj = kf.HistContainer(bin_edges=list(c["edges"]), fill_data=list(c["entries"]) if c["entries"] else None)
            S["edges"] = list(c["edges"])
            S["entries"] = list(c["entries"])
        elif kind == "indexed_model":
            S["f"] = idx_model(n)
            S["p"] = list(c["pars"])
            obj = kf.IndexedParametricModel(S["f"], list(S["p"]))
        elif kind == "xy_model":
            S["x"] = np.array(c["x"], dtype=float)
            S["p"] = list(c["pars"])
            obj = kf.XYParametricModel(list(c["x"]), xy_quad, list(S["p"]))
        else:
            S["edges"] = list(c["edges"])
            S["p"] = list(c["pars"])
            obj = kf.HistParametricModel(n, (c["edges"][0], c["edges"][-1]), hist_density, list(S["p"]), bin_edges=list(c["edges"]),
                                         bin_evaluation=hist_antider)

        def values(ax):
            if kind in ("indexed", "xy"):
                return S["v"][ax]
            if kind == "hist":
                e = S["edges"]
                cnt = np.zeros(n)
                for x in S["entries"]:
                    if e[0] <= x < e[-1]:
                        cnt[int(np.searchsorted(e, x, side="right")) - 1] += 1
                return cnt
            if kind == "indexed_model":
                return np.asarray(S["f"](*S["p"]), dtype=float)
            if kind == "xy_model":
                return S["x"] if ax == 0 else np.asarray(xy_quad(S["x"], *S["p"]), dtype=float)
            e = np.asarray(S["edges"], dtype=float)
            return np.asarray(hist_antider(e[1:], *S["p"])) - np.asarray(hist_antider(e[:-1], *S["p"]))

        names = []  # declaration index -> real name
        seen_states = {}
        n_mut = 1
        reads_after = 0
        mut_pending = False

        def viol(oracle, obs, msg, step, exp=None, act=None):
            raise Violation(PROP, oracle, obs, msg, step=step, expected=exp, actual=act)

        def close(a, b, scale=None):
            a = np.asarray(a, dtype=float)
            b = np.asarray(b, dtype=float)
            if a.shape != b.shape:
                return False
            sc = float(np.max(np.abs(b[np.isfinite(b)]))) if scale is None and np.any(np.isfinite(b)) else (scale or 0.0)
            return bool(np.allclose(a, b, rtol=RTOL, atol=RTOL * sc, equal_nan=True))

        for step, op in enumerate(ops[1:], start=1):
            k = op[0]
            if k in ("add_simple", "add_matrix"):
                name, axspec = op[1], op[2]
                ax = {0: 0, 1: 1, "x": 0, "y": 1, "0": 0, "1": 1}[axspec]
                if ax >= naxes:
                    continue
                if name is not None and name in names:
                    continue
                rel = op[5] if k == "add_simple" else op[6]
                if k == "add_simple":
                    ev = op[3]
                    evn = np.ones(n) * ev if not isinstance(ev, list) else np.array(ev, dtype=float)
                    if evn.shape != (n,):
                        continue
                    src = RefSource(None, ax, "simple", rel, err=evn, corr=op[4])
                    kw = dict(err_val=(ev if not isinstance(ev, list) else list(ev)), name=name, correlation=op[4], relative=rel)
                    if naxes == 2:
                        rn = obj.add_error(axspec, **kw)
                    else:
                        rn = obj.add_error(**kw)
                else:
                    M = np.array(op[4], dtype=float)
                    if M.shape != (n, n):
                        continue
                    ev = None if op[5] is None else np.array(op[5], dtype=float)
                    if op[3] == "cor" and (ev is None or ev.shape != (n,)):
                        continue
                    src = RefSource(None, ax, "matrix", rel, err=ev, mat=M, mtype=op[3])
                    kw = dict(err_matrix=M.copy(), matrix_type=op[3], name=name, err_val=(None if ev is None else ev.copy()), relative=rel)
                    if naxes == 2:
                        rn = obj.add_matrix_error(axspec, **kw)
                    else:
                        rn = obj.add_matrix_error(**kw)
                if name is not None and rn != name:
                    viol("sum", "name", "source registered under %r instead of the requested name %r" % (rn, name), step)
                if rn in names:
                    viol("sum", "name", "generated name %r collides with an existing source (a source was merged or lost)" % rn, step)
                src.name = rn
                names.append(rn)
                ref.sources.append(src)
                res.bump("op_" + k + ("_rel" if rel else "_abs"))
                n_mut += 1
                mut_pending = True
            elif k in ("disable", "enable"):
                if op[1] >= len(names):
                    continue
                getattr(obj, k + "_error")(names[op[1]])
                ref.sources[op[1]].enabled = k == "enable"
                res.bump("op_" + k)
                n_mut += 1
                mut_pending = True
            elif k == "set_data" and kind == "indexed":
                if len(op[1]) != n:
                    continue
                obj.data = list(op[1])
                S["v"][0] = np.array(op[1], dtype=float)
                res.bump("op_set_data")
                n_mut += 1
                mut_pending = True
            elif k in ("set_x", "set_y") and kind == "xy":
                if len(op[1]) != n:
                    continue
                setattr(obj, k[-1], list(op[1]))
                S["v"][0 if k == "set_x" else 1] = np.array(op[1], dtype=float)
                res.bump("op_" + k)
                n_mut += 1
                mut_pending = True
            elif k == "set_xy" and kind == "xy":
                if len(op[1]) != n or len(op[2]) != n:
                    continue
                arr = np.array([op[1], op[2]], dtype=float)
                obj.data = arr.T.copy() if (op[3] and n != 2) else arr
                S["v"] = [np.array(op[1], dtype=float), np.array(op[2], dtype=float)]
                res.bump("op_set_xy")
                n_mut += 1
                mut_pending = True
            elif k == "fill" and kind == "hist":
                obj.fill(list(op[1]))
                S["entries"] += list(op[1])
                res.bump("op_fill")
                n_mut += 1
                mut_pending = True
            elif k == "rebin" and kind == "hist":
                if len(op[1]) != n + 1:
                    continue
                obj.rebin(list(op[1]))
                S["edges"] = list(op[1])
                res.bump("op_rebin")
                n_mut += 1
                mut_pending = True
            elif k == "set_pars" and kind.endswith("_model"):
                if len(op[1]) != len(S["p"]):
                    continue
                obj.parameters = list(op[1])
                S["p"] = list(op[1])
                res.bump("op_set_pars")
                n_mut += 1
                mut_pending = True
            elif k == "set_model_x" and kind == "xy_model":
                if len(op[1]) != n:
                    continue
                obj.x = list(op[1])
                S["x"] = np.array(op[1], dtype=float)
                res.bump("op_set_model_x")
                n_mut += 1
                mut_pending = True
            elif k == "gc":
                world.collect()
                res.bump("fault_F7_gc_fired")
            elif k == "collide":
                if names:
                    world.collide_names.append(names[-1])
                    res.bump("fault_F6_name_collision_armed")
            elif k == "read":
                what, ax = op[1], op[2]
                if ax >= naxes:
                    continue
                vals = values(ax)
                V = ref.total(ax, vals)
                pre = "" if naxes == 1 else "xy"[ax] + "_"
                res.bump("op_read_" + what)
                if what == "err":
                    got = getattr(obj, pre + "err")
                    if not close(got, ref_err(V)):
                        viol("sum", "err", "%serr is %s, sqrt(diag(sum of enabled sources)) is %s" % (pre, np.asarray(got), ref_err(V)), step, ref_err(V), got)
                elif what in ("cov", "total.cov_mat"):
                    got = getattr(obj, pre + "cov_mat") if what == "cov" else (obj.get_total_error(ax) if naxes == 2 else obj.get_total_error()).cov_mat
                    got = np.asarray(got, dtype=float)
                    if not close(got, V):
                        viol("sum", "cov", "%scov_mat differs from the sum over enabled sources at the current values: got diag %s, expected diag %s" % (
                            pre, np.diag(got) if got.ndim == 2 else got, np.diag(V)), step, V, got)
                    if not np.allclose(got, got.T, rtol=1e-13, atol=0):
                        viol("sum", "symmetry", "total covariance matrix is not symmetric", step)
                    ev = np.linalg.eigvalsh(0.5 * (got + got.T))
                    if ev.size and ev.min() < -1e-9 * max(1.0, float(np.abs(ev).max())):
                        viol("sum", "psd", "total covariance matrix has negative eigenvalue %g" % ev.min(), step)
                    key = (tuple(s.enabled for s in ref.sources), tuple(np.asarray(vals).tolist()), ax)
                    if key in seen_states:
                        if not np.allclose(got, seen_states[key], rtol=1e-14, atol=1e-14 * float(np.abs(V).max() if V.size else 0)):
                            viol("restore", "cov", "same sources/enabled flags/values as at an earlier read, but the total differs (disable+enable must restore exactly)", step, seen_states[key], got)
                        res.probe("same_state_reread")
                    seen_states[key] = got.copy()
                elif what == "cor":
                    got = getattr(obj, pre + "cor_mat")
                    if not close(got, ref_cor(V), scale=1.0):
                        viol("sum", "cor", "%scor_mat is not V/sqrt(diag diag^T) of the reference total" % pre, step, ref_cor(V), got)
                elif what == "inv":
                    got = getattr(obj, pre + "cov_mat_inverse")
                    cond = np.linalg.cond(V) if V.size and np.all(np.isfinite(V)) else np.inf
                    if cond <= 1e8:
                        if got is None:
                            viol("sum", "inv", "inverse is None although the reference total is well conditioned (cond %g)" % cond, step)
                        if not np.allclose(np.asarray(got).dot(V), np.eye(n), rtol=0, atol=1e-6):
                            viol("sum", "inv", "cov_mat_inverse times the reference total is not the identity", step)
                        res.probe("inverse_checked")
                    got = None
                elif what == "total.error":
                    te = obj.get_total_error(ax) if naxes == 2 else obj.get_total_error()
                    got = te.error
                    if not close(got, ref_err(V)):
                        viol("sum", "err", "total error object .error is %s, expected %s" % (np.asarray(got), ref_err(V)), step, ref_err(V), got)
                elif what == "total.error_rel":
                    if np.any(np.asarray(vals) == 0):
                        continue
                    te = obj.get_total_error(ax) if naxes == 2 else obj.get_total_error()
                    got = te.error_rel
                    exp = ref_err(V) / np.abs(vals)
                    if not close(got, exp):
                        viol("sum", "err_rel", "total relative error is %s, expected %s" % (np.asarray(got), exp), step, exp, got)
                log.add(op, "ok", got)
                if mut_pending:
                    reads_after += 1
                    mut_pending = False
            te = obj._total_error
            res.states.add(h64(kind, te is not None, tuple((s.enabled, s.relative, s.kind) for s in ref.sources), bool(getattr(obj, "_pm_calculation_stale", False)),
                               bool(getattr(obj, "_unprocessed_entries", None))))
        res.n_ops = len(ops)
        res.nontrivial = n_mut >= 3 and reads_after >= 1 and len(ref.sources) >= 1

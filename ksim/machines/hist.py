"""M-HIST (C12): histories of fill / read / rebin on HistContainer against a multiset + half-open-interval model.

Oracles (all integer, ==):
  counts      : data / underflow / overflow equal the reference counts for the current edges
  conserve    : underflow + sum(data) + overflow == number of entries filled == n_entries
  raw         : sorted(raw_data) == sorted(entries)
  batching    : a sibling container filled in ONE batch with the same binning agrees
Reads are placed anywhere and in any order (underflow before data, twice in a row, right after rebin ...).
"""
import importlib

import numpy as np

from ..core import Machine, Streams, Violation, h64

hc = importlib.import_module("kafe2.fit.histogram.container")

PROP = "C12"

LATTICE = [x * 0.5 for x in range(-6, 11)]  # -3.0 .. 5.0
FAR = [-1e6, 1e6, -1e300, 1e300, -3.25, 4.75, 0.1, 0.49999999999999994, 0.5000000000000001]


def ref_counts(edges, entries):
    """-> (underflow, [bins], overflow) by the definition: e_i <= x < e_{i+1}."""
    e = list(edges)
    n = len(e) - 1
    uf = 0
    of = 0
    bins = [0] * n
    for x in entries:
        if x < e[0]:
            uf += 1
        elif x >= e[-1]:
            of += 1
        else:
            hit = [i for i in range(n) if e[i] <= x < e[i + 1]]
            assert len(hit) == 1, (e, x, hit)
            bins[hit[0]] += 1
    return uf, bins, of


def gen_edges(rng, maxbins):
    n = rng.randint(1, maxbins)
    style = rng.choice(["uniform", "nonuniform", "nonuniform", "repeated"])
    if style == "uniform":
        lo = rng.choice([-2.0, -1.0, 0.0, 0.5])
        w = rng.choice([0.5, 1.0, 0.25])
        return [lo + i * w for i in range(n + 1)]
    pts = sorted(rng.sample(LATTICE, min(n + 1, len(LATTICE))))
    if style == "repeated" and len(pts) >= 2:
        k = rng.randint(1, 2)
        for _ in range(k):
            j = rng.randrange(len(pts))
            pts.insert(j, pts[j])
    return pts


def gen_entries(rng, edges, maxn):
    n = rng.choice([0, 1, 1, 2, 3, 5, maxn])
    out = []
    for _ in range(n):
        r = rng.random()
        if r < 0.35 and edges:
            out.append(float(rng.choice(edges)))  # exactly on an edge (first, inner, last)
        elif r < 0.45:
            out.append(float(rng.choice(FAR)))
        elif r < 0.55 and out:
            out.append(out[-1])  # duplicate
        else:
            out.append(float(rng.choice(LATTICE)) + rng.choice([0.0, 0.0, 0.25, 0.125]))
    return out


READS = ("data", "underflow", "overflow", "n_entries", "raw_data", "edges")


class HistMachine(Machine):
    name = "hist"
    no_return_cap = 20  # seconds of wall time; a run takes milliseconds
    properties = (PROP,)

    def generate(self, seed, tier, idx):
        st = Streams(seed)
        sw = st("swarm")
        rng = st("ops")
        maxbins = 8
        maxent = 6 if tier == "quick" else 12
        n_ops = sw.randint(3, 14 if tier == "quick" else 25)
        w = {"fill": sw.choice([2, 4, 6]), "fill_scalar": sw.choice([0, 1, 2]), "read": sw.choice([2, 5, 9]), "rebin": sw.choice([0, 1, 2, 3]),
             "set_bins": sw.choice([0, 0, 1])}
        kinds = list(w)
        forced = kinds[idx % len(kinds)]
        w[forced] = max(w[forced], 3)
        read_bias = sw.choice([None, "underflow", "overflow", "n_entries", "raw_data"])
        edges = gen_edges(rng, maxbins)
        mode = sw.choice(["range", "edges", "edges", "inner", "edges+n", "inner"])
        ops = []
        ctor = {"mode": mode}
        if mode == "range":
            n = sw.randint(1, maxbins)
            lo = sw.choice([-2.0, -1.0, 0.0, 0.5])
            wd = sw.choice([0.5, 1.0, 0.25, 2.0])
            ctor.update({"n_bins": n, "range": [lo, lo + n * wd]})
            edges = [lo + i * wd for i in range(n + 1)]
        elif mode in ("edges", "edges+n"):
            ctor["edges"] = edges
        else:
            if len(edges) < 3:
                edges = sorted(set(edges + [edges[0] - 1.0, edges[-1] + 1.0]))
            ctor["edges"] = edges[1:-1]
            ctor["range"] = [edges[0], edges[-1]]
            ctor["n_bins"] = len(edges) - 1
        if sw.random() < 0.3:
            ctor["fill_data"] = gen_entries(rng, edges, maxent)
        ops.append(["new", ctor])
        pool = [k for k in kinds for _ in range(w[k])]
        cur = list(edges)
        for _ in range(n_ops):
            k = rng.choice(pool)
            if k == "fill":
                ops.append(["fill", gen_entries(rng, cur, maxent)])
                if len(ops) % 6 == 0:
                    # a HistFit is built from the container in mid-history (decided without a further draw); the history of the user's container goes on
                    ops.append(["fit"])
            elif k == "fill_scalar":
                ops.append(["fill_scalar", float(rng.choice(cur + LATTICE))])
            elif k == "read":
                what = read_bias if (read_bias and rng.random() < 0.5) else rng.choice(READS)
                ops.append(["read", what])
            elif k == "rebin":
                if rng.random() < 0.15 and len(cur) >= 3:
                    # a rebin that kafe2 rejects (edges not ascending) somewhere in the history: contents must be those of the valid calls only
                    bad = list(cur)
                    bad[0], bad[-1] = bad[-1], bad[0]
                    ops.append(["bad_rebin", bad])
                    continue
                cur = gen_edges(rng, maxbins)
                ops.append(["rebin", cur])
            elif k == "set_bins":
                nb = len(cur) - 1
                ops.append(["set_bins", [rng.randint(0, 5) for _ in range(nb)], rng.randint(0, 3), rng.randint(0, 3)])
                ops.append(["read", rng.choice(["underflow", "overflow", "data"])])
                ops.append(["read", "data"])
                break
        ops.append(["read", rng.choice(READS)])
        ops.append(["final"])
        return {"machine": self.name, "seed": seed, "knobs": {"order": "insertion"}, "ops": ops}

    def simplify(self, op):
        if op[0] == "fill" and len(op[1]) > 1:
            for i in range(len(op[1])):
                yield ["fill", op[1][:i] + op[1][i + 1:]]
        if op[0] == "new" and "fill_data" in op[1]:
            c = dict(op[1])
            del c["fill_data"]
            yield ["new", c]

    def fingerprint(self, case, v):
        kinds = sorted(set(op[0] if op[0] != "read" else "read:" + op[1] for op in case["ops"]))
        return ";".join([v.get("oracle", "?"), v.get("observable", "?")] + kinds)

    def execute(self, case, world, res, log):
        h = None
        edges = None
        entries = []
        manual = None
        n_mut = 0
        reads_after = 0
        mut_pending = False

        def viol(oracle, obs, msg, step, exp=None, act=None):
            raise Violation(PROP, oracle, obs, msg, step=step, expected=exp, actual=act)

        for step, op in enumerate(case["ops"]):
            k = op[0]
            if k == "new":
                if h is not None:
                    continue
                c = op[1]
                kw = {}
                if c["mode"] == "range":
                    kw = dict(n_bins=c["n_bins"], bin_range=tuple(c["range"]))
                    edges = list(np.linspace(c["range"][0], c["range"][1], c["n_bins"] + 1))
                elif c["mode"] == "edges":
                    kw = dict(bin_edges=list(c["edges"]))
                    edges = list(c["edges"])
                elif c["mode"] == "edges+n":
                    kw = dict(n_bins=len(c["edges"]) - 1, bin_edges=list(c["edges"]), bin_range=(c["edges"][0], c["edges"][-1]))
                    edges = list(c["edges"])
                else:
                    kw = dict(n_bins=c["n_bins"], bin_range=tuple(c["range"]), bin_edges=list(c["edges"]))
                    edges = [c["range"][0]] + list(c["edges"]) + [c["range"][1]]
                if len(edges) < 2 or any(b < a for a, b in zip(edges, edges[1:])):
                    return
                if "fill_data" in c:
                    kw["fill_data"] = list(c["fill_data"])
                    entries = list(c["fill_data"])
                h = hc.HistContainer(**kw)
                res.bump("op_new_" + c["mode"])
                n_mut += 1
            elif h is None:
                continue
            elif k == "fill":
                if manual is not None:
                    continue
                h.fill(list(op[1]))
                entries += list(op[1])
                res.bump("op_fill")
                if not op[1]:
                    res.probe("empty_batch")
                if any(x in edges for x in op[1]):
                    res.probe("entry_exactly_on_edge")
                n_mut += 1
                mut_pending = True
            elif k == "fit":
                if manual is not None or not entries:
                    continue
                try:
                    from kafe2 import HistFit
                    hf = HistFit(h)
                    got = np.array(hf.data, dtype=float)
                except Exception as e:  # noqa  (whether a fit can be built from this container is not C12's question)
                    res.bump("fit_from_container_raised_" + type(e).__name__)
                    continue
                res.bump("op_fit_from_container")
                exp = np.array(ref_counts(edges, entries)[1], dtype=float)
                if got.shape != exp.shape or not np.array_equal(got, exp):
                    viol("counts", "fit.data", "HistFit built from the container reports data %s, half-open counting of the %d entries filled so far gives %s" % (
                        got.tolist(), len(entries), exp.tolist()), step, exp, got)
            elif k == "fill_scalar":
                if manual is not None:
                    continue
                h.fill(op[1])
                entries.append(op[1])
                res.bump("op_fill_scalar")
                n_mut += 1
                mut_pending = True
            elif k == "bad_rebin":
                if manual is not None or not any(b < a for a, b in zip(op[1], op[1][1:])):
                    continue
                try:
                    h.rebin(list(op[1]))
                except Exception:
                    res.probe("rejected_rebin_in_history")
                else:
                    res.discard = "unsorted-rebin-was-accepted"  # (C19's question, not judged here)
                    return
                continue
            elif k == "rebin":
                if manual is not None:
                    continue
                ne = list(op[1])
                if len(ne) < 2 or any(b < a for a, b in zip(ne, ne[1:])):
                    continue
                h.rebin(ne)
                edges = ne
                res.bump("op_rebin")
                if any(a == b for a, b in zip(ne, ne[1:])):
                    res.probe("rebin_with_repeated_edge")
                n_mut += 1
                mut_pending = True
            elif k == "set_bins":
                if manual is not None or len(op[1]) != len(edges) - 1:
                    continue
                h.set_bins(list(op[1]), underflow=op[2], overflow=op[3])
                manual = (op[2], list(op[1]), op[3])
                res.bump("op_set_bins")
                n_mut += 1
                mut_pending = True
            elif k == "read":
                what = op[1]
                res.bump("op_read_" + what)
                if manual is not None:
                    uf, bins, of = manual
                    n_exp = uf + sum(bins) + of
                else:
                    uf, bins, of = ref_counts(edges, entries)
                    n_exp = len(entries)
                if h._unprocessed_entries:
                    res.probe("read_with_pending_entries")
                if what == "data":
                    got = [int(x) for x in h.data]
                    if got != bins or any(float(x) != int(x) for x in h.data):
                        viol("counts", "data", "data is %r, half-open counting of %d entries gives %r" % (got, len(entries), bins), step, bins, got)
                elif what == "underflow":
                    got = h.underflow
                    if got != uf:
                        viol("counts", "underflow", "underflow is %r, reference %d (entries below the first edge)" % (got, uf), step, uf, got)
                elif what == "overflow":
                    got = h.overflow
                    if got != of:
                        viol("counts", "overflow", "overflow is %r, reference %d (entries at or above the last edge)" % (got, of), step, of, got)
                elif what == "n_entries":
                    got = h.n_entries
                    if got != n_exp:
                        viol("conserve", "n_entries", "n_entries is %r, %d entries were filled" % (got, n_exp), step, n_exp, got)
                elif what == "raw_data":
                    if manual is None:
                        got = sorted(float(x) for x in h.raw_data)
                        if got != sorted(entries):
                            viol("raw", "raw_data", "raw_data multiset differs from the filled entries", step, sorted(entries), got)
                    got = None
                elif what == "edges":
                    got = [float(x) for x in h.bin_edges]
                    if got != [float(x) for x in edges] or h.n_bins != len(edges) - 1 or h.size != len(edges) - 1:
                        viol("counts", "edges", "bin_edges %r, expected %r" % (got, edges), step, edges, got)
                log.add(op, "ok", got)
                if mut_pending:
                    reads_after += 1
                    mut_pending = False
            elif k == "final":
                # conservation through the three count properties, in a seeded order
                names = ["underflow", "data", "overflow"]
                world.streams("final").shuffle(names)
                vals = {}
                for nme in names:
                    vals[nme] = getattr(h, nme)
                tot = int(vals["underflow"]) + int(np.sum(vals["data"])) + int(vals["overflow"])
                if manual is None:
                    uf, bins, of = ref_counts(edges, entries)
                    if tot != len(entries):
                        viol("conserve", "sum", "underflow+bins+overflow = %d (read in order %s) but %d entries were filled" % (tot, names, len(entries)), step, len(entries), tot)
                    if (int(vals["underflow"]), [int(x) for x in vals["data"]], int(vals["overflow"])) != (uf, bins, of):
                        viol("counts", "final", "final contents %r differ from reference %r" % ((int(vals["underflow"]), [int(x) for x in vals["data"]], int(vals["overflow"])), (uf, bins, of)), step)
                    # independence from batching / reads / rebins: one-batch sibling with the final binning
                    sib = hc.HistContainer(bin_edges=list(edges), fill_data=list(entries))
                    sv = (int(sib.underflow) if False else None)
                    sd = [int(x) for x in sib.data]
                    sv = (int(sib.underflow), sd, int(sib.overflow))
                    if sv != (uf, bins, of):
                        viol("batching", "sibling", "one-batch container gives %r, reference %r" % (sv, (uf, bins, of)), step, (uf, bins, of), sv)
                log.add(op, "ok", tot)
            res.states.add(h64(bool(h._processed_entries), bool(h._unprocessed_entries), bool(h._manual_heights), len(h._data)))
        res.n_ops = len(case["ops"])
        res.nontrivial = n_mut >= 3 and reads_after >= 1 and len(entries) >= 1

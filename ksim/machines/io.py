"""M-IO (C09): saving and reloading any object reproduces it - on a simulated file system with fault injection.

Objects: data containers (indexed / xy / histogram incl. manual bin heights), fits (xy / indexed / histogram / unbinned; fitted or
not; fixed / limited / constrained parameters; disabled / relative / matrix / model-referenced sources), parameter constraints,
parametric models.  File system: SimFS behind the open() seam, so OutputFileHandle's append-mode + explicit-truncate protocol runs
for real.  Paths come from a pool of 2: write-write-read on one path (longer file overwritten by a shorter one and vice versa).
Oracles
  equivalent : the reloaded object is observationally equivalent under an identical read script (data, per-source name / type /
               relative / enabled / axis, totals, parameter values, fixed / limited sets, constraint costs, cost at common points,
               stored fit results, refit within the minimizer tolerance)
  own-class  : every object that offers to_file can be saved and reloaded through its own class and through the base class
  idempotent : from_file -> to_file -> from_file: the second document equals the first to 1e-12
  replaced   : after overwriting, the file holds exactly one document equal to the LAST object
Fault batch (F3, separate runs): ENOSPC after k characters / open failure -> to_file raises: the file may hold anything, the
in-memory object must be observably unchanged; an acknowledged to_file must be readable and equivalent.
"""
import importlib

import numpy as np
import yaml

from .. import fitlib, iolib
from ..core import Machine, Streams, Violation, h64
from ..simfs import SimFS

PROP = "C09"
KINDS = ("container", "fit", "fit", "container", "constraint", "fit", "model", "container")
PATHS = ("/simfs/a.yml", "/simfs/b.yml")


def K():
    return importlib.import_module("kafe2.fit")


def _C():
    return importlib.import_module("kafe2.core.constraint")


# ------------------------------------------------------------------------------------------------ object construction from JSON specs


def gen_container(rng):
    kind = rng.choice(["indexed", "xy", "hist", "hist_manual", "xy", "unbinned"])
    n = rng.randint(2, 6)
    spec = {"kind": kind, "n": n, "label": rng.choice([None, "my data"]), "axis_labels": rng.choice([None, ["t [s]", "U [V]"]])}
    if kind in ("indexed", "unbinned"):
        spec["data"] = [round(1.0 + 3.0 * rng.random(), 3) for _ in range(n)]
    elif kind == "xy":
        spec["x"] = [float(i) + round(rng.random(), 3) for i in range(n)]
        spec["y"] = [round(-2.0 + 6.0 * rng.random(), 3) for _ in range(n)]
    else:
        spec["edges"] = [float(i) for i in range(n + 1)]
        if kind == "hist":
            spec["entries"] = [round(-0.8 + (n + 1.6) * rng.random(), 3) for _ in range(rng.randint(3, 25))]
        else:
            spec["heights"] = [float(rng.randint(0, 9)) for _ in range(n)]
            spec["underflow"] = float(rng.randint(0, 4))
            spec["overflow"] = float(rng.randint(5, 9))
    srcs = []
    for i in range(rng.randint(0, 4) if kind != "unbinned" else 0):  # (unbinned containers take no uncertainty sources)
        ax = rng.choice(["x", "y"]) if kind == "xy" else None
        rel = rng.random() < 0.35 and kind != "hist_manual"
        if rng.random() < 0.65:
            ev = rng.choice([0.1, 0.25, [round(0.05 + 0.3 * rng.random(), 3) for _ in range(n)]])
            srcs.append({"type": "simple", "axis": ax, "err": ev, "corr": rng.choice([0.0, 0.3, 1.0]), "rel": rel, "name": "s%d" % i, "enabled": rng.random() > 0.25})
        elif rng.random() < 0.5:
            B = np.array([[rng.choice([-0.2, 0.1, 0.3]) for _ in range(2)] for _ in range(n)])
            M = np.round(B.dot(B.T) + np.eye(n) * 0.05, 6)
            srcs.append({"type": "matrix", "axis": ax, "mtype": "cov", "mat": M.tolist(), "err": None, "rel": rel, "name": "s%d" % i, "enabled": rng.random() > 0.25})
        else:
            c = rng.choice([0.0, 0.4])
            M = np.full((n, n), c)
            np.fill_diagonal(M, 1.0)
            srcs.append({"type": "matrix", "axis": ax, "mtype": "cor", "mat": M.tolist(), "err": [round(0.1 + 0.2 * rng.random(), 3) for _ in range(n)], "rel": rel,
                         "name": "s%d" % i, "enabled": rng.random() > 0.25})
    spec["sources"] = srcs
    return spec


def build_container(spec):
    k = K()
    kind = spec["kind"]
    if kind == "indexed":
        c = k.IndexedContainer(list(spec["data"]))
    elif kind == "unbinned":
        c = k.UnbinnedContainer(list(spec["data"]))
    elif kind == "xy":
        c = k.XYContainer(list(spec["x"]), list(spec["y"]))
    elif kind == "hist":
        c = k.HistContainer(bin_edges=list(spec["edges"]), fill_data=list(spec["entries"]))
    else:
        c = k.HistContainer(bin_edges=list(spec["edges"]))
        c.set_bins(list(spec["heights"]), underflow=spec["underflow"], overflow=spec["overflow"])
    if spec.get("label"):
        c.label = spec["label"]
    if spec.get("axis_labels"):
        c.axis_labels = tuple(spec["axis_labels"])
    for s in spec["sources"]:
        if s["type"] == "simple":
            kw = dict(err_val=s["err"], name=s["name"], correlation=s["corr"], relative=s["rel"])
            c.add_error(s["axis"], **kw) if kind == "xy" else c.add_error(**kw)
        else:
            kw = dict(err_matrix=np.array(s["mat"]), matrix_type=s["mtype"], name=s["name"], err_val=(None if s["err"] is None else np.array(s["err"])), relative=s["rel"])
            c.add_matrix_error(s["axis"], **kw) if kind == "xy" else c.add_matrix_error(**kw)
        if not s["enabled"]:
            c.disable_error(s["name"])
    return c


def container_obs(c):
    """Read script for containers -> dict of comparable observables."""
    k = K()
    o = {"class": type(c).__name__, "size": int(c.size), "label": c.label, "axis_labels": tuple(c.axis_labels) if c.axis_labels is not None else None}
    if isinstance(c, k.XYContainer):
        o["x"] = np.array(c.x, dtype=float)
        o["y"] = np.array(c.y, dtype=float)
        o["x_cov"] = np.array(c.x_cov_mat, dtype=float)
        o["y_cov"] = np.array(c.y_cov_mat, dtype=float)
    else:
        o["data"] = np.array(c.data, dtype=float)
        o["cov"] = np.array(c.cov_mat, dtype=float)
    if isinstance(c, k.HistContainer):
        o["edges"] = np.array(c.bin_edges, dtype=float)
        o["underflow"] = float(c.underflow)
        o["overflow"] = float(c.overflow)
        o["n_entries"] = float(c.n_entries)
    srcs = {}
    for name, d in c._error_dicts.items():  # (there is no public per-source listing; read-only access)
        e = d["err"]
        srcs[name] = (type(e).__name__, bool(e.relative), bool(d["enabled"]), d.get("axis"))
    o["sources"] = srcs
    return o


def gen_fit(rng):
    t = rng.choice(["xy", "xy", "indexed", "hist", "unbinned", "custom"])
    spec = {"type": t, "minimizer": rng.choice(["iminuit", "iminuit", "scipy"]), "do_fit": rng.random() < 0.5, "asym": rng.random() < 0.2}
    if t == "xy":
        mk = rng.choice(sorted(iolib.XY))
        f, names, dflt = iolib.XY[mk]
        n = rng.randint(3, 7)
        xs = [float(i + 1) * 0.5 + round(0.2 * rng.random(), 3) for i in range(n)]
        pt = [round(v * rng.choice([0.8, 1.0, 1.2]), 3) for v in dflt]
        ys = [round(float(v) + rng.choice([-0.2, 0.1, 0.3]), 3) for v in iolib.fn(mk)(np.array(xs), *pt)]
        spec.update({"model": mk, "x": xs, "y": ys, "names": names, "ptrue": pt, "cost": rng.choice(["chi2", "chi2", "chi2_covariance", "nll_gaussian"])})
    elif t == "indexed":
        mk = rng.choice(sorted(iolib.IDX))
        f, n, names, dflt = iolib.IDX[mk]
        pt = [round(v * rng.choice([0.8, 1.0, 1.2]), 3) for v in dflt]
        spec.update({"model": mk, "d": [round(float(v) + rng.choice([-0.2, 0.1, 0.3]), 3) for v in f(*pt)], "names": names, "ptrue": pt, "cost": rng.choice(["chi2", "chi2_covariance"])})
        n = len(spec["d"])
    elif t == "hist":
        nb = rng.randint(3, 6)
        edges = [-3.0 + i * (6.0 / nb) for i in range(nb + 1)]
        spec.update({"model": "io_normal", "edges": edges, "entries": [round(-3.5 + 7.0 * rng.random(), 3) for _ in range(rng.randint(20, 50))], "names": ["mu", "sigma"],
                     "ptrue": [0.2, 1.3], "cost": rng.choice(["nll", "nllr", "chi2"]), "bin_eval": rng.choice(["simpson", "numerical", "trapezoid"])})
        n = nb
    elif t == "custom":
        mk = rng.choice(sorted(iolib.CUSTOM))
        spec.update({"model": mk, "names": list(iolib.CUSTOM[mk][1]), "ptrue": list(iolib.CUSTOM[mk][2]), "cost": "custom"})
        n = 0
    else:
        spec.update({"model": "io_normal", "d": [round(-2.5 + 5.0 * rng.random(), 3) for _ in range(rng.randint(8, 20))], "names": ["mu", "sigma"], "ptrue": [0.2, 1.3], "cost": "nll"})
        n = len(spec["d"])
    srcs = []
    if t in ("xy", "indexed") or (t == "hist" and spec["cost"] == "chi2"):
        ax = "y" if t == "xy" else None
        srcs.append({"type": "simple", "axis": ax, "err": rng.choice([0.3, 0.5]), "corr": 0.0, "rel": False, "name": "base", "enabled": True, "ref": "data"})
        for i in range(rng.randint(0, 2)):
            ax2 = rng.choice(["x", "y"]) if t == "xy" else None
            rel = rng.random() < 0.3
            ref = "model" if (rng.random() < 0.25 and t != "hist") else "data"
            srcs.append({"type": "simple", "axis": ax2, "err": rng.choice([0.05, 0.1, [round(0.05 + 0.1 * rng.random(), 3) for _ in range(n)]]), "corr": rng.choice([0.0, 0.5]),
                         "rel": rel, "name": "e%d" % i, "enabled": rng.random() > 0.25, "ref": ref})
    spec["sources"] = srcs
    cons = []
    names = spec["names"]
    if rng.random() < 0.4:
        i = rng.randrange(len(names))
        cons.append({"kind": "simple", "par": names[i], "value": round(spec["ptrue"][i] * 1.05 + 0.01, 3), "unc": rng.choice([0.2, 0.5]), "rel": rng.random() < 0.5})
    if rng.random() < 0.25 and len(names) >= 2:
        cons.append({"kind": "matrix", "pars": names[:2], "values": [round(spec["ptrue"][0] + 0.01, 3), round(spec["ptrue"][1] + 0.01, 3)], "mat": [[0.2, 0.05], [0.05, 0.3]], "mtype": "cov",
                     "unc": None, "rel": rng.random() < 0.4})
    spec["constraints"] = cons
    spec["fixed"] = {}
    spec["limited"] = {}
    if rng.random() < 0.3 and len(names) >= 2:
        i = rng.randrange(len(names))
        spec["fixed"][names[i]] = round(spec["ptrue"][i], 3)
    if rng.random() < 0.3:
        i = rng.randrange(len(names))
        if names[i] not in spec["fixed"]:
            v = spec["ptrue"][i]
            spec["limited"][names[i]] = [round(v - 5 * abs(v) - 5, 3), round(v + 5 * abs(v) + 5, 3)]
    spec["set"] = [round(v * rng.choice([0.9, 1.0, 1.1]), 4) for v in spec["ptrue"]] if rng.random() < 0.6 else None
    # a single value set through the keyword form, as the last thing before saving
    if rng.random() < 0.35:
        i = rng.randrange(len(names))
        # (also for a parameter that is fixed: the value a fixed parameter holds is the current one, not the one it had when it was fixed)
        spec["set_kw"] = {names[i]: round(spec["ptrue"][i] * 1.13 + 0.02, 4)}
    # documented cost function option handed over as an object (low rate: the space behind open finding F-C09-13 stays explored)
    spec["nodet"] = t in ("xy", "indexed") and spec["cost"].startswith("chi2") and rng.random() < 0.06
    return spec


def build_fit(spec):
    k = K()
    t = spec["type"]
    if spec.get("nodet"):
        spec = dict(spec)
        fcls = {"xy": k.XYFit, "indexed": k.IndexedFit}[t]
        ccls, ckw = fcls._STRING_TO_COST_FUNCTION[spec["cost"]]
        spec["cost"] = ccls(**dict(ckw, add_determinant_cost=False))
    if t == "xy":
        fit = k.XYFit([list(spec["x"]), list(spec["y"])], iolib.XY[spec["model"]][0], cost_function=spec["cost"], minimizer=spec["minimizer"])
    elif t == "indexed":
        fit = k.IndexedFit(list(spec["d"]), iolib.IDX[spec["model"]][0], cost_function=spec["cost"], minimizer=spec["minimizer"])
    elif t == "hist":
        fit = k.HistFit(k.HistContainer(bin_edges=list(spec["edges"]), fill_data=list(spec["entries"])), iolib.io_normal, cost_function=spec["cost"], bin_evaluation=spec["bin_eval"],
                        minimizer=spec["minimizer"])
    elif t == "custom":
        fit = k.CustomFit(iolib.CUSTOM[spec["model"]][0], minimizer=spec["minimizer"])
    else:
        fit = k.UnbinnedFit(list(spec["d"]), iolib.io_normal, cost_function=spec["cost"], minimizer=spec["minimizer"])
    for s in spec["sources"]:
        kw = dict(err_val=s["err"], name=s["name"], correlation=s["corr"], relative=s["rel"], reference=s["ref"])
        fit.add_error(s["axis"], **kw) if t == "xy" else fit.add_error(**kw)
        if not s["enabled"]:
            fit.disable_error(s["name"])
    for c in spec["constraints"]:
        if c["kind"] == "simple":
            fit.add_parameter_constraint(c["par"], c["value"], c["unc"], relative=c["rel"])
        else:
            fit.add_matrix_parameter_constraint(list(c["pars"]), list(c["values"]), np.array(c["mat"]), matrix_type=c["mtype"], uncertainties=c["unc"], relative=c["rel"])
    if spec.get("set"):
        fit.set_all_parameter_values(list(spec["set"]))
    for nm, v in spec["fixed"].items():
        fit.fix_parameter(nm, v)
    for nm, (lo, hi) in spec["limited"].items():
        fit.limit_parameter(nm, lo, hi)
    if spec.get("set_kw"):
        fit.set_parameter_values(**spec["set_kw"])
    return fit


def fit_obs(fit, points):
    """Read script for fits (identical for original and reloaded object)."""
    custom = type(fit).__name__ == "CustomFit"
    o = {"class": type(fit).__name__, "parameter_names": tuple(fit.parameter_names), "parameter_values": np.array(fit.parameter_values, dtype=float),
         "did_fit": bool(fit.did_fit), "ndf": None if custom else int(fit.ndf), "data": None if custom else np.array(fit.data, dtype=float),
         "fixed": {k: float(v) for k, v in fit._fitter.fixed_parameters.items()}, "limited": {k: tuple(float(x) for x in v) for k, v in fit._fitter.limited_parameters.items()},
         "n_constraints": len(fit.parameter_constraints)}
    if o["did_fit"]:
        o["parameter_errors"] = np.array(fit.parameter_errors, dtype=float)
        o["parameter_cov_mat"] = None if fit.parameter_cov_mat is None else np.array(fit.parameter_cov_mat, dtype=float)
    srcs = {}
    for where, cont in (() if custom else (("data", fit.data_container), ("model", fit._param_model))):
        for name, d in cont._error_dicts.items():
            e = d["err"]
            srcs[name] = (where, type(e).__name__, bool(e.relative), bool(d["enabled"]), d.get("axis"))
    o["sources"] = srcs
    o["constraint_costs"] = [float(sum(c.cost(np.asarray(p, dtype=float)) for c in fit.parameter_constraints)) for p in points]
    return o


def fit_costs(fit, points):
    """Cost at common parameter points (mutates the parameter values: done last, on both objects alike)."""
    out = []
    for p in points:
        fit.set_all_parameter_values(list(p))
        out.append(float(fit.cost_function_value))
    return out


def gen_constraint(rng):
    if rng.random() < 0.5:
        return {"kind": "simple", "index": rng.randint(0, 3), "value": round(0.5 + 2 * rng.random(), 3), "unc": rng.choice([0.1, 0.25]), "rel": rng.random() < 0.5}
    n = rng.randint(2, 3)
    B = np.array([[rng.choice([-0.3, 0.2, 0.4]) for _ in range(n)] for _ in range(n)])
    M = np.round(B.dot(B.T) + np.eye(n) * 0.1, 6)
    if rng.random() < 0.5:
        return {"kind": "matrix", "indices": list(range(n)), "values": [round(0.5 + 2 * rng.random(), 3) for _ in range(n)], "mat": M.tolist(), "mtype": "cov", "unc": None, "rel": rng.random() < 0.5}
    C = np.full((n, n), 0.3)
    np.fill_diagonal(C, 1.0)
    return {"kind": "matrix", "indices": list(range(n)), "values": [round(0.5 + 2 * rng.random(), 3) for _ in range(n)], "mat": C.tolist(), "mtype": "cor",
            "unc": [rng.choice([0.1, 0.2]) for _ in range(n)], "rel": rng.random() < 0.5}


def build_constraint(spec):
    C = _C()
    if spec["kind"] == "simple":
        return C.GaussianSimpleParameterConstraint(index=spec["index"], value=spec["value"], uncertainty=spec["unc"], relative=spec["rel"])
    return C.GaussianMatrixParameterConstraint(indices=list(spec["indices"]), values=list(spec["values"]), matrix=np.array(spec["mat"]), matrix_type=spec["mtype"],
                                               uncertainties=spec["unc"], relative=spec["rel"])


def constraint_obs(c):
    pts = [np.array([0.3, 1.1, 2.2, 0.7]), np.array([1.0, 1.0, 1.0, 1.0]), np.array([2.5, 0.2, 1.7, 3.1])]
    return {"class": type(c).__name__, "extra_ndf": int(c.extra_ndf), "costs": [float(c.cost(p)) for p in pts], "relative": bool(c.relative)}


def gen_model(rng):
    kind = rng.choice(["xy", "indexed", "hist", "unbinned", "function"])
    spec = {"kind": kind}
    if kind == "xy":
        mk = rng.choice(sorted(iolib.XY))
        spec.update({"model": mk, "x": [float(i) * 0.5 for i in range(1, rng.randint(3, 6))], "pars": list(iolib.XY[mk][2])})
    elif kind == "indexed":
        mk = rng.choice(sorted(iolib.IDX))
        spec.update({"model": mk, "pars": list(iolib.IDX[mk][3])})
    elif kind == "unbinned":
        spec.update({"model": "io_normal", "d": [round(-2.0 + 4.0 * rng.random(), 3) for _ in range(rng.randint(3, 8))], "pars": [round(0.2 * rng.choice([0.5, 1.0, 2.0]), 3), 1.3]})
    elif kind == "function":
        fk = rng.choice(["xy", "indexed"])
        spec.update({"fkind": fk, "model": rng.choice(sorted(iolib.XY)) if fk == "xy" else rng.choice(sorted(iolib.IDX))})
    else:
        spec.update({"model": "io_normal", "edges": [-2.0, -1.0, 0.0, 1.0, 2.0], "pars": [0.2, 1.3], "bin_eval": rng.choice(["simpson", "trapezoid"])})
    spec["rel_err"] = rng.choice([None, 0.1])
    return spec


def build_model(spec):
    k = K()
    if spec["kind"] == "xy":
        m = k.XYParametricModel(list(spec["x"]), iolib.fn(spec["model"]), list(spec["pars"]))  # (a parametric model takes function handles only)
        if spec["rel_err"]:
            m.add_error("y", spec["rel_err"], name="m", relative=True)
    elif spec["kind"] == "indexed":
        m = k.IndexedParametricModel(iolib.IDX[spec["model"]][0], list(spec["pars"]))
        if spec["rel_err"]:
            m.add_error(spec["rel_err"], name="m", relative=True)
    elif spec["kind"] == "unbinned":
        m = importlib.import_module("kafe2.fit.unbinned.model").UnbinnedParametricModel(list(spec["d"]), iolib.io_normal, list(spec["pars"]))
    elif spec["kind"] == "function":
        # the model function object itself (what a fit wraps the user's function in)
        if spec["fkind"] == "xy":
            m = importlib.import_module("kafe2.fit._base").ModelFunctionBase(iolib.XY[spec["model"]][0])
        else:
            m = importlib.import_module("kafe2.fit.indexed").IndexedModelFunction(iolib.IDX[spec["model"]][0])
    else:
        e = spec["edges"]
        m = k.HistParametricModel(len(e) - 1, (e[0], e[-1]), iolib.io_normal, list(spec["pars"]), bin_edges=list(e), bin_evaluation=spec["bin_eval"])
        if spec["rel_err"]:
            m.add_error(spec["rel_err"], name="m", relative=True)
    return m


def model_obs(m):
    if not hasattr(m, "parameters"):
        # a model function object: name, signature, defaults, values at probe points, formatter strings
        names = list(m.signature.parameters) if hasattr(m, "signature") else []
        dflt = [float(v) for v in m.defaults]
        o = {"class": type(m).__name__, "name": m.name, "args": names, "defaults": np.array(dflt, dtype=float), "parcount": int(m.parcount)}
        if type(m).__name__ == "IndexedModelFunction":
            o["values"] = np.array(m(*dflt), dtype=float)
            o["values2"] = np.array(m(*[1.1 * v + 0.1 for v in dflt]), dtype=float)
        else:
            xs = np.array([0.5, 1.0, 2.5])
            o["values"] = np.array(m(xs, *dflt), dtype=float)
            o["values2"] = np.array(m(xs, *[1.1 * v + 0.1 for v in dflt]), dtype=float)
        try:
            o["latex"] = m.formatter.get_formatted(format_as_latex=True, with_expression=True)
        except Exception as e:
            o["latex"] = "raised " + type(e).__name__
        return o
    return {"class": type(m).__name__, "data": np.array(m.data, dtype=float), "parameters": np.array(m.parameters, dtype=float), "cov": np.array(m.y_cov_mat if hasattr(m, "y_cov_mat") else m.cov_mat, dtype=float)}


# ------------------------------------------------------------------------------------------------ comparison


def same(a, b, rtol, path=""):
    if isinstance(a, dict) and isinstance(b, dict):
        if sorted(a, key=str) != sorted(b, key=str):
            return "%s: keys %r vs %r" % (path, sorted(a, key=str), sorted(b, key=str))
        for k in a:
            r = same(a[k], b[k], rtol, path + "." + str(k))
            if r:
                return r
        return None
    if isinstance(a, (list, tuple)) and isinstance(b, (list, tuple)) and not (a and isinstance(a[0], (int, float)) and not isinstance(a[0], bool)):
        if len(a) != len(b):
            return "%s: length %d vs %d" % (path, len(a), len(b))
        for i, (x, y) in enumerate(zip(a, b)):
            r = same(x, y, rtol, path + "[%d]" % i)
            if r:
                return r
        return None
    if a is None or b is None:
        return None if (a is None and b is None) else "%s: %r vs %r" % (path, a, b)
    if isinstance(a, (bool, str)) or isinstance(b, (bool, str)):
        return None if a == b else "%s: %r vs %r" % (path, a, b)
    try:
        x = np.asarray(a, dtype=float)
        y = np.asarray(b, dtype=float)
    except Exception:
        return None if a == b else "%s: %r vs %r" % (path, a, b)
    if x.shape != y.shape:
        return "%s: shape %r vs %r" % (path, x.shape, y.shape)
    sc = float(np.max(np.abs(y[np.isfinite(y)]))) if np.any(np.isfinite(y)) else 0.0
    if not np.allclose(x, y, rtol=rtol, atol=rtol * sc, equal_nan=True):
        with np.errstate(all="ignore"):
            return "%s: max |diff| %.3g (scale %.3g)" % (path, float(np.nanmax(np.abs(x - y))), sc)
    return None


def yaml_docs(text):
    """Documents in a file; None if it is not parsable YAML (e.g. a new document written over the tail of a longer old one)."""
    try:
        return [d for d in yaml.load_all(text, Loader=yaml.Loader) if d is not None] if text.strip() else []
    except Exception:
        return None


def doc_numeric_equal(a, b, rtol=1e-12):
    """Parsed YAML documents equal up to rtol on numbers (matrices appear as text -> parsed leniently)."""
    if isinstance(a, dict) and isinstance(b, dict):
        return sorted(a, key=str) == sorted(b, key=str) and all(doc_numeric_equal(a[k], b[k], rtol) for k in a)
    if isinstance(a, list) and isinstance(b, list):
        return len(a) == len(b) and all(doc_numeric_equal(x, y, rtol) for x, y in zip(a, b))
    if isinstance(a, (int, float)) and isinstance(b, (int, float)) and not isinstance(a, bool):
        if a != a and b != b:
            return True
        return abs(a - b) <= rtol * max(abs(a), abs(b), 1e-300) or a == b
    if isinstance(a, str) and isinstance(b, str) and a != b:
        try:
            x = np.array([float(t) for t in a.replace("[", " ").replace("]", " ").replace(",", " ").split()])
            y = np.array([float(t) for t in b.replace("[", " ").replace("]", " ").replace(",", " ").split()])
            return x.shape == y.shape and bool(np.allclose(x, y, rtol=rtol, atol=0))
        except Exception:
            return False
    try:
        if isinstance(a, np.ndarray) or isinstance(b, np.ndarray):
            return np.asarray(a).shape == np.asarray(b).shape and bool(np.allclose(np.asarray(a, dtype=float), np.asarray(b, dtype=float), rtol=rtol, atol=0))
    except Exception:
        return False
    return a == b


class IOMachine(Machine):
    name = "io"
    properties = (PROP,)

    def generate(self, seed, tier, idx):
        st = Streams(seed)
        sw = st("swarm")
        rng = st("ops")
        kind = KINDS[idx % len(KINDS)]
        faulty = (idx // len(KINDS)) % 4 == 3  # fault-free and fault-injecting configurations are separate batches
        ops = []
        nobj = sw.randint(1, 3) if kind in ("container", "fit") else 1
        for j in range(nobj):
            if kind == "container":
                spec = gen_container(rng)
            elif kind == "fit":
                spec = gen_fit(rng)
            elif kind == "constraint":
                spec = gen_constraint(rng)
            else:
                spec = gen_model(rng)
            path = PATHS[0] if (j == 0 or rng.random() < 0.7) else PATHS[1]
            op = ["save_load", kind, spec, path, {"via_base": rng.random() < 0.4, "second_cycle": rng.random() < 0.5}]
            if faulty and rng.random() < 0.7:
                op[4]["fault"] = rng.choice([["enospc", rng.randint(0, 600)], ["open_raises", 1], ["enospc", rng.randint(0, 60)], ["short_read", rng.randint(0, 400)], ["truncate_raises", 1]])
            ops.append(op)
            if kind == "fit" and rng.random() < 0.3:
                ops.append(["save_state", kind, spec, PATHS[1], {}])
        return {"machine": self.name, "seed": seed, "knobs": {"order": "insertion", "faulty": faulty}, "ops": ops}

    def case_tag(self, case):
        return (case["ops"][0][1] if case["ops"] else "?") + (":faults" if case["knobs"].get("faulty") else "")

    def fingerprint(self, case, v):
        kinds = []
        for op in case["ops"]:
            sp = op[2]
            kinds.append("%s:%s" % (op[1], sp.get("kind") or sp.get("type")))
            if sp.get("nodet"):
                kinds.append("opt:add_determinant_cost=False")
        return ";".join([v.get("oracle", "?"), v.get("observable", "?")] + sorted(set(kinds)) + list((v.get("extra") or {}).get("tags", [])))

    # ------------------------------------------------------------------ execution
    def execute(self, case, world, res, log):
        fs = SimFS()
        world.fs = fs
        n_cycles = 0
        for step, op in enumerate(case["ops"]):
            k, kind, spec, path, opt = op
            build, obs = {"container": (build_container, container_obs), "fit": (build_fit, None), "constraint": (build_constraint, constraint_obs),
                          "model": (build_model, model_obs)}[kind]
            obj = build(spec)
            res.bump("object_" + type(obj).__name__)
            points = None
            if kind == "fit":
                if spec.get("do_fit"):
                    free = len(spec["names"]) - len(spec["fixed"])
                    if free >= 1:
                        try:
                            obj.do_fit()
                            if spec.get("asym") and spec["minimizer"] == "iminuit":
                                _ = obj.asymmetric_parameter_errors
                        except Exception as e:
                            res.discard = "do_fit_raised_" + type(e).__name__
                            return
                p0 = [float(v) for v in obj.parameter_values]
                points = [p0, [v * 1.07 + 0.01 for v in p0]]
                for nm, v in spec["fixed"].items():
                    for p in points:
                        p[spec["names"].index(nm)] = v
                obs = lambda o, pts=points: fit_obs(o, pts)  # noqa: E731
            if k == "save_state":
                self.save_state(obj, spec, path, fs, step, res)
                continue
            before = obs(obj)
            fault = opt.get("fault")
            if fault:
                if fault[0] == "enospc":
                    fs.write_budget = fault[1]
                elif fault[0] != "short_read":
                    fs.faults[fault[0]] = fault[1]
            raised = None
            try:
                obj.to_file(path)
            except Exception as e:  # noqa
                raised = e
            fs.write_budget = None
            fs.faults.pop("open_raises", None)
            fs.faults.pop("truncate_raises", None)
            res.bump("op_to_file_" + kind)
            if raised is not None:
                if fault and fault[0] in ("enospc", "open_raises"):
                    # failed write: file content unconstrained; the object must be observably unchanged
                    res.bump("fault_F3_%s_fired" % fault[0])
                    after = obs(obj)
                    d = same(before, after, 1e-12)
                    if d:
                        raise Violation(PROP, "fault-unchanged", kind, "a to_file that failed with %s changed the in-memory object: %s" % (type(raised).__name__, d), step=step)
                    log.add(["to_file", kind, path], "failed-as-injected")
                    continue
                raise Violation(PROP, "own-class", kind + ":to_file", "%s.to_file raised %s: %s" % (type(obj).__name__, type(raised).__name__, str(raised)[:160]), step=step,
                                extra={"tags": [type(obj).__name__]})
            text1 = fs.files.get(path, "")
            docs = yaml_docs(text1) if "\0" not in text1 else None
            if fault and fault[0] == "truncate_raises":
                # the writer deliberately ignores a failing truncate (needed for streams); no property covers it: report-only
                res.probe("FAULT-PROBE_truncate_failed_file_not_replaced")
                res.bump("fault_F3_truncate_raises_fired")
                fs.files[path] = ""
                continue
            if docs is None or len(docs) != 1:
                raise Violation(PROP, "replaced", kind, "after to_file the file holds %s YAML documents%s (an earlier, longer file was not replaced completely?)" % (
                    "unparsable /" if docs is None else len(docs), " and NUL bytes" if "\0" in text1 else ""), step=step)
            if fault and fault[0] == "short_read":
                fs.faults["short_read"] = min(fault[1], max(0, len(text1) - 1))
            cls = type(obj)
            loaders = [cls]
            if opt.get("via_base"):
                base = obj._get_base_class() if callable(getattr(obj, "_get_base_class", None)) else cls
                if hasattr(base, "from_file"):
                    loaders.append(base)
            loaded = None
            for ldr in loaders:
                try:
                    loaded = ldr.from_file(path)
                except Exception as e:  # noqa
                    if fault and fault[0] == "short_read":
                        res.bump("fault_F3_short_read_fired")
                        loaded = None
                        break  # a torn read may fail; it must not return a wrong object silently (checked below when it returns)
                    raise Violation(PROP, "own-class", kind + ":from_file", "%s.from_file raised %s: %s" % (ldr.__name__, type(e).__name__, str(e)[:160]), step=step,
                                    extra={"tags": [type(obj).__name__]})
                if fault and fault[0] == "short_read":
                    # a prefix of a YAML document can be a different valid document: no oracle (DESIGN 4, C09); only count it
                    res.bump("fault_F3_short_read_returned_object")
                    loaded = None
                    break
                after_load = obs(loaded)
                d = same(before, after_load, 1e-7)
                if d:
                    raise Violation(PROP, "equivalent", kind, "object reloaded through %s differs from the original: %s" % (ldr.__name__, d), step=step,
                                    extra={"tags": self.tags(kind, spec, d)})
            if loaded is None:
                continue
            n_cycles += 1
            # the original must not have been changed by saving
            d = same(before, obs(obj), 1e-9)
            if d:
                raise Violation(PROP, "equivalent", kind + ":original", "to_file changed the saved object itself: %s" % d, step=step)
            if opt.get("second_cycle"):
                loaded.to_file(path)
                text2 = fs.files.get(path, "")
                d2 = yaml_docs(text2)
                if d2 is None or len(d2) != 1 or not doc_numeric_equal(docs[0], d2[0]):
                    raise Violation(PROP, "idempotent", kind, "second save/load cycle changed the document beyond rounding", step=step,
                                    extra={"tags": [type(obj).__name__]})
                res.probe("second_cycle_compared")
            if kind == "fit":
                c1 = fit_costs(obj, points)
                c2 = fit_costs(loaded, points)
                d = same(c1, c2, 1e-7)
                if d:
                    raise Violation(PROP, "equivalent", "fit:cost", "cost at the same parameter points differs after reload: %s vs %s" % (c1, c2), step=step,
                                    extra={"tags": self.tags(kind, spec, "cost")})
                # continuation: the reloaded object must answer the same later operations in the same way (uncertainty sources toggled after
                # the costs above were read, i.e. with every cache of both objects filled)
                toggled = 0
                for s_ in spec["sources"]:
                    if s_["name"] == "base":
                        continue
                    for o_ in (obj, loaded):
                        (o_.enable_error if not s_["enabled"] else o_.disable_error)(s_["name"])
                    toggled += 1
                    c1 = fit_costs(obj, points)
                    c2 = fit_costs(loaded, points)
                    d = same(c1, c2, 1e-7)
                    if d:
                        raise Violation(PROP, "equivalent", "fit:continuation", "after %s uncertainty source %r on both objects the cost at the same parameter points differs: "
                                        "reloaded %s vs original %s" % ("enabling" if not s_["enabled"] else "disabling", s_["name"], c2, c1), step=step,
                                        extra={"tags": self.tags(kind, spec, "cost") + ["toggle-" + s_["ref"]]})
                if toggled:
                    res.probe("continuation_toggle_compared", toggled)
                if spec.get("do_fit") and (case["seed"] + step) % 2 == 0 and len(spec["names"]) - len(spec["fixed"]) >= 1:
                    try:
                        obj.set_all_parameter_values(points[0])
                        loaded.set_all_parameter_values(points[0])
                        obj.do_fit()
                        loaded.do_fit()
                        pa, pb = np.array(obj.parameter_values, dtype=float), np.array(loaded.parameter_values, dtype=float)
                        sg = np.array(obj.parameter_errors, dtype=float)
                        if np.any(np.abs(pa - pb) > 0.05 * np.where(sg > 0, sg, np.inf) + 1e-6 * (np.abs(pa) + 1e-3)):
                            raise Violation(PROP, "equivalent", "fit:refit", "refitting the reloaded fit gives %s, the original %s (sigma %s)" % (pb.tolist(), pa.tolist(), sg.tolist()),
                                            step=step)
                        res.probe("refit_compared")
                    except Violation:
                        raise
                    except Exception:
                        pass
            log.add(["save_load", kind, path], "ok", len(text1))
            res.states.add(h64(kind, spec.get("kind") or spec.get("type"), len(fs.files), bool(fault)))
        for kx, vx in fs.stats.items():
            if vx:
                res.probe("simfs_" + kx, vx)
        res.n_ops = len(case["ops"])
        res.nontrivial = n_cycles >= 1

    def tags(self, kind, spec, detail):
        t = []
        if detail.startswith("."):
            t.append("obs:" + detail[1:].split(":")[0].split(".")[0].split("[")[0])
        if "sources" in detail and any(not s.get("enabled", True) for s in spec.get("sources", [])):
            t.append("disabled-source")
        if "overflow" in detail:
            t.append("overflow")
        if spec.get("kind") == "hist_manual":
            t.append("manual-heights")
        if any(c.get("rel") for c in spec.get("constraints", [])):
            t.append("relative-constraint")
        if any(s.get("ref") == "model" for s in spec.get("sources", [])):
            t.append("model-source")
        return t

    def save_state(self, fit, spec, path, fs, step, res):
        if spec.get("do_fit") and len(spec["names"]) - len(spec["fixed"]) >= 1:
            try:
                fit.do_fit()
            except Exception:
                return
        else:
            return
        a = {"p": np.array(fit.parameter_values, dtype=float), "e": np.array(fit.parameter_errors, dtype=float), "did_fit": bool(fit.did_fit)}
        fit.save_state(path)
        twin = build_fit(spec)
        twin.load_state(path)
        b = {"p": np.array(twin.parameter_values, dtype=float), "e": np.array(twin.parameter_errors, dtype=float), "did_fit": bool(twin.did_fit)}
        d = same(a, b, 1e-9)
        if d:
            raise Violation(PROP, "equivalent", "fit:state", "load_state after save_state differs: %s" % d, step=step)
        res.probe("save_state_compared")

"""M-NEXUS (C04): seeded histories of public node/graph operations against the from-scratch evaluator.

Oracles
  value      : every read that returns equals the reference evaluation (==, integer-valued floats);
               a read that raises must raise where the reference raises (same exception type).
  once       : during one read each counted function is *successfully* evaluated at most once.
  needed     : a counted function is evaluated only if the reference says one of its direct or transitive
               inputs was assigned / edited / unfrozen since its last successful evaluation.
  cycle      : a cycle-closing dependency must raise.
Faults: F2 (function armed to raise SimFault(BaseException) on its next evaluation), F7 (drop+gc),
N5 (seeded notification order).
"""
import importlib

import numpy as np

from ..core import Machine, Violation, Streams, values_equal_exact, h64
from ..refmodel.graph import LIB, RefGraph, RNode, SEQ_KINDS

nx = importlib.import_module("kafe2.core.fitters.nexus")

PROP = "C04"


class SimFault(BaseException):
    """Injected cancellation (like KeyboardInterrupt): not catchable by `except Exception`."""


class Counted(object):
    """User function wrapper: counts calls / successes, can be armed to raise once (F2)."""

    def __init__(self, key, owner):
        self.key = key
        self.owner = owner
        self.fn = LIB[key][1]
        self.calls = 0
        self.ok = 0
        self.armed = 0
        self.__name__ = "u_%s_%d" % (key, owner)

    def __call__(self, *a):
        self.calls += 1
        if self.armed:
            self.armed -= 1
            if self.armed == 0:
                raise SimFault("injected")
        r = self.fn(*a)
        self.ok += 1
        return r


_probe = {"stale_hit": 0, "on": False}
_installed = [False]


def _install_probe():
    if _installed[0]:
        return
    _installed[0] = True
    orig = nx.NodeBase.mark_for_update

    def mark_for_update(self):
        if _probe["on"] and self._stale:
            _probe["stale_hit"] += 1
        return orig(self)

    nx.NodeBase.mark_for_update = mark_for_update


ALL_OPS = (
    "set", "read", "read", "freeze", "unfreeze", "replace", "replace_child", "set_func", "setitem", "add_dep",
    "new_param", "new_func", "new_alias", "new_seq", "new_fallback", "new_binop", "value_dict", "drop", "arm", "cycle",
)


def _val(rng):
    return float(rng.randint(-4, 4))


class NexusMachine(Machine):
    name = "nexus"
    no_return_cap = 20  # seconds of wall time; a run takes milliseconds
    properties = (PROP,)

    # ------------------------------------------------------------------ generation
    def generate(self, seed, tier, idx):
        st = Streams(seed)
        sw = st("swarm")
        rng = st("ops")
        mode = sw.choice(["free", "free", "nexus"])
        n_init = sw.randint(3, 8 if tier == "quick" else 12)
        n_ops = sw.randint(4, 30 if tier == "quick" else 45)
        kinds = ["set", "read", "freeze", "unfreeze", "replace", "replace_child", "set_func", "setitem", "add_dep",
                 "new_func", "new_param", "new_alias", "new_seq", "new_fallback", "new_binop", "value_dict", "drop", "arm", "cycle", "freeze_raw", "nx_replace", "nx_named", "nx_placeholder", "nx_fill"]
        weights = {}
        for k in kinds:
            weights[k] = sw.choice([0, 0, 1, 2, 4]) if k not in ("set", "read") else sw.choice([3, 6, 10])
        forced = kinds[idx % len(kinds)]  # stratification: kind k is force-enabled in runs i mod n == k
        weights[forced] = max(weights[forced], 4)
        faults_on = (idx % 4 == 3)
        if not faults_on:
            weights["arm"] = 0
        if mode == "free":
            weights["value_dict"] = 0
            weights["nx_replace"] = 0
            weights["nx_named"] = 0
            weights["nx_placeholder"] = 0
            weights["nx_fill"] = 0
        knobs = {
            "mode": mode,
            "order": sw.choice(["shuffle", "shuffle", "insertion", "reverse"]),
            "faults": faults_on,
            "allow_failing": sw.random() < 0.4,
        }
        g = GenState(knobs)
        ops = []
        # initial program biased to chains / diamonds / shared sub-expressions
        for _ in range(n_init):
            k = rng.choice(["new_param", "new_param", "new_func", "new_func", "new_func", "new_alias", "new_seq", "new_fallback", "new_binop"])
            op = g.propose(k, rng)
            if op is not None and g.apply(op):
                ops.append(op)
        pool = [k for k in kinds for _ in range(weights[k])]
        tries = 0
        while len(ops) < n_init + n_ops and tries < 400:
            tries += 1
            k = rng.choice(pool)
            op = g.propose(k, rng)
            if op is None:
                continue
            if g.apply(op):
                ops.append(op)
                if op[0] == "cycle":
                    if mode != "nexus":
                        break
                    # (Nexus.add_dependency rejects before touching the graph: the history goes on; what was evaluated stays evaluated)
                    for _ in range(2):
                        rd = g.propose("read", rng)
                        if rd is not None and g.apply(rd):
                            ops.append(rd)
        return {"machine": self.name, "seed": seed, "knobs": knobs, "ops": ops}

    # ------------------------------------------------------------------ execution
    def execute(self, case, world, res, log):
        _install_probe()
        knobs = case["knobs"]
        ex = Exec(knobs, world, res, log)
        _probe["stale_hit"] = 0
        _probe["on"] = True
        try:
            for i, op in enumerate(case["ops"]):
                ex.step(i, op)
        finally:
            _probe["on"] = False
            res.probe("notify_reached_stale_node", _probe["stale_hit"])
        res.n_ops = len(case["ops"])
        res.nontrivial = ex.n_mut >= 3 and ex.read_after_mut >= 1 and len(res.states) >= 2

    # ------------------------------------------------------------------ shrinking
    def simplify(self, op):
        k = op[0]
        if k in ("set", "new_param") and op[2] not in (0.0, 1.0):
            yield [k, op[1], 1.0]
        if k == "value_dict" and op[1] != "fail":
            yield [k, "fail"]
        if k == "new_func" and op[2] not in ("neg", "add"):
            a = LIB[op[2]][0]
            if a == "s":
                yield [k, op[1], "neg", op[3]]
            if a == "ss":
                yield [k, op[1], "add", op[3]]

    def simplify_knobs(self, knobs):
        if knobs.get("order") != "insertion":
            k = dict(knobs)
            k["order"] = "insertion"
            yield k

    def fingerprint(self, case, v):
        """Tokens describing the violation for known-finding matching."""
        kinds = [op[0] for op in case["ops"]]
        tok = [v.get("oracle", "?"), v.get("observable", "?")] + list((v.get("extra") or {}).get("tags", []))
        for k in ("unfreeze", "set_func", "setitem", "new_fallback", "cycle", "replace", "replace_child", "add_dep", "drop", "arm", "freeze"):
            if k in kinds:
                tok.append(k)
        return ";".join(tok)


class GenState(object):
    """Reference-side applicability of ops; shared by generator (propose+apply) and executor (apply)."""

    def __init__(self, knobs):
        self.knobs = knobs
        self.g = RefGraph()
        self.next_id = 0
        self.registered = {}  # nexus mode: name -> node id
        self.cycle_done = False
        self.opaque = set()  # nodes frozen without a preceding read (value unknown to the reference)
        self.alias_name = {}  # node id -> registry name taken over from a replaced node

    def depends_on_opaque(self, nid):
        return any(self.g.reaches(nid, o) for o in self.opaque if self.g.has(o))

    # -- helpers
    def ids(self, pred=None):
        return [n.id for n in self.g.nodes.values() if n.alive and n.id >= 0 and (pred is None or pred(n))]

    def scalars(self):
        return self.ids(lambda n: n.typ == "s")

    def seqs(self):
        return self.ids(lambda n: n.typ == "q")

    def name_of(self, nid):
        if nid in self.alias_name:
            return self.alias_name[nid]
        n = self.g.nodes[nid]
        return {"P": "p", "F": "f", "A": "a", "T": "t", "R": "r", "B": "b", "E": "e"}[n.kind] + str(nid)

    # -- proposal (uses rng; result is validated by apply)
    def propose(self, k, rng):
        g = self.g
        sc = self.scalars()
        sq = self.seqs()
        nid = self.next_id
        if k == "new_param":
            return ["new_param", nid, _val(rng)]
        if k == "new_func":
            keys = sorted(LIB)
            if not self.knobs.get("allow_failing"):
                keys = [x for x in keys if x != "failneg"]
            key = rng.choice(keys)
            sig = LIB[key][0]
            args = []
            for t in sig:
                cand = sc if t == "s" else sq
                if not cand:
                    return None
                # bias to recent nodes (chains) and repeated use (diamonds / shared sub-expressions)
                args.append(cand[-1 - min(len(cand) - 1, int(rng.expovariate(0.6)))] if rng.random() < 0.6 else rng.choice(cand))
            return ["new_func", nid, key, args]
        if k == "new_alias":
            cand = sc + sq
            if not cand:
                return None
            return ["new_alias", nid, rng.choice(cand)]
        if k == "new_seq":
            if not sc:
                return None
            m = rng.randint(1, 3)
            return ["new_seq", nid, rng.choice(["T", "R"]), [rng.choice(sc) for _ in range(m)]]
        if k == "new_fallback":
            if len(sc) < 1:
                return None
            m = rng.randint(1, 3)
            return ["new_fallback", nid, [rng.choice(sc) for _ in range(m)]]
        if k == "new_binop":
            if not sc:
                return None
            a = rng.choice(sc)
            if rng.random() < 0.3:
                return ["new_unop", nid, rng.choice(["neg", "abs"]), a]
            if rng.random() < 0.4:
                return ["new_binop", nid, rng.choice(["add", "sub", "mul"]), a, ["lit", _val(rng)], rng.random() < 0.3]
            return ["new_binop", nid, rng.choice(["add", "sub", "mul"]), a, ["node", rng.choice(sc)], False]
        if k == "set":
            ps = self.ids(lambda n: n.kind == "P")
            if not ps:
                return None
            p = rng.choice(ps)
            if rng.random() < 0.15:
                return ["set", p, g.nodes[p].value]  # equal-value assignment
            return ["set", p, _val(rng)]
        if k == "read":
            cand = self.ids()
            if not cand:
                return None
            # bias to non-parameters
            np_ = [c for c in cand if g.nodes[c].kind != "P"]
            return ["read", rng.choice(np_ if np_ and rng.random() < 0.85 else cand)]
        if k == "freeze":
            cand = self.ids(lambda n: n.kind != "P" and not n.frozen)
            return ["freeze", rng.choice(cand)] if cand else None
        if k == "freeze_raw":
            cand = self.ids(lambda n: n.kind != "P" and not n.frozen)
            return ["freeze_raw", rng.choice(cand)] if cand else None
        if k == "unfreeze":
            cand = self.ids(lambda n: n.frozen)
            return ["unfreeze", rng.choice(cand)] if cand else None
        if k == "replace":
            cand = self.ids()
            if len(cand) < 2:
                return None
            old = rng.choice(cand)
            new = rng.choice(cand)
            return ["replace", old, new]
        if k == "replace_child":
            ps = self.ids(lambda n: n.kind != "P" and (n.params or n.deps))
            if not ps:
                return None
            p = rng.choice(ps)
            ch = g.children(p)
            old = rng.choice(ch)
            cand = self.ids(lambda n: n.typ == g.nodes[old].typ)
            if not cand:
                return None
            return ["replace_child", p, old, rng.choice(cand)]
        if k == "set_func":
            fs = self.ids(lambda n: n.kind == "F" and n.fkey[0] == "lib")
            if not fs:
                return None
            f = rng.choice(fs)
            sig = LIB[g.nodes[f].fkey[1]][0]
            keys = [x for x in sorted(LIB) if LIB[x][0] == sig and (self.knobs.get("allow_failing") or x != "failneg")]
            return ["set_func", f, rng.choice(keys)]
        if k == "setitem":
            ts = self.ids(lambda n: n.kind in SEQ_KINDS)
            if not ts or not sc:
                return None
            t = rng.choice(ts)
            i = rng.randrange(len(g.nodes[t].params))
            if rng.random() < 0.25:
                i -= len(g.nodes[t].params)  # negative index, counted from the end
            if rng.random() < 0.3:
                return ["setitem", t, i, ["lit", _val(rng)]]
            return ["setitem", t, i, ["node", rng.choice(sc)]]
        if k == "add_dep":
            # (in Nexus mode a plain Parameter may carry dependency-only edges as well: Nexus.add_dependency accepts any registered node)
            fs = self.ids(lambda n: n.kind in (("F", "A", "P") if self.knobs["mode"] == "nexus" else ("F", "A")))
            cand = self.ids()
            if not fs or not cand:
                return None
            return ["add_dep", rng.choice(fs), rng.choice(cand)]
        if k == "cycle":
            fs = self.ids(lambda n: n.kind in (("F", "A", "P") if self.knobs["mode"] == "nexus" else ("F", "A")))
            rng.shuffle(fs)
            for a in fs:
                # choose b that (transitively) depends on a, so a->b closes a cycle
                deps = [x for x in g.dependents(a) if g.nodes[x].alive]
                if deps:
                    b = rng.choice(sorted(deps))
                    if self.knobs["mode"] == "nexus" and rng.random() < 0.5:
                        # a LIST of dependencies in which harmless entries precede the cycle-closing one: the whole call must be rejected
                        ok = [x for x in self.ids() if x >= 0 and x != a and not g.reaches(x, a) and x not in g.nodes[a].params and x not in g.nodes[a].deps]
                        if ok:
                            return ["cycle", a, b, [rng.choice(ok) for _ in range(rng.randint(1, 2))]]
                    return ["cycle", a, b]
            return None
        if k == "value_dict":
            return ["value_dict", rng.choice(["fail", "none", "ignore", "list", "exception_as_value"])]
        if k == "nx_replace":
            # Nexus.add(<new node with the name of an existing one>, existing_behavior='replace' | 'replace_if_alias')
            cand = [i for i in self.ids() if self.name_of(i) in self.registered and self.registered[self.name_of(i)] == i]
            if not cand:
                return None
            old = rng.choice(cand)
            if g.nodes[old].typ != "s":
                return None
            if rng.random() < 0.5 or not sc:
                return ["nx_replace", old, nid, ["param", _val(rng)], "replace"]
            return ["nx_replace", old, nid, ["func", rng.choice(["neg", "inc", "absf"]), rng.choice(sc)], rng.choice(["replace", "replace", "replace_if_alias"])]
        if k == "nx_named":
            # Nexus.add_function(func, func_name, par_names=[...]) / Nexus.add_alias(name, alias_for=...)
            if not sc:
                return None
            if rng.random() < 0.5:
                key = rng.choice(["add", "mul", "neg", "sum3"])
                return ["nx_named", nid, "func", key, [rng.choice(sc) for _ in LIB[key][0]]]
            return ["nx_named", nid, "alias", rng.choice(sc + sq)]
        if k == "nx_placeholder":
            # Nexus.add_function with a parameter name nobody has defined yet: kafe2 creates an Empty placeholder of that name
            return ["nx_placeholder", nid, nid + 1, rng.choice(["neg", "inc", "absf"])]
        if k == "nx_fill":
            es = self.ids(lambda n: n.kind == "E")
            return ["nx_fill", rng.choice(es), _val(rng)] if es else None
        if k == "drop":
            cand = self.ids(lambda n: not g.parents(n.id) and n.kind != "P")
            return ["drop", rng.choice(cand)] if cand else None
        if k == "arm":
            fs = self.ids(lambda n: n.kind == "F" and n.countable)
            return ["arm", rng.choice(fs)] if fs else None
        return None

    # -- applicability + reference transition.  Returns False if op is not applicable (skipped).
    def apply(self, op):
        g = self.g
        k = op[0]
        if self.cycle_done:
            return False
        if k in ("freeze", "freeze_raw", "unfreeze", "replace", "replace_child", "nx_replace", "drop", "setitem", "add_dep", "cycle"):
            # (placeholders are only read, used as inputs of new nodes, and filled in)
            for x in op[1:]:
                if isinstance(x, int) and not isinstance(x, bool) and x in g.nodes and g.nodes[x].kind == "E":
                    return False
        if k.startswith("new_"):
            nid = op[1]
            if nid in g.nodes:
                return False
            if k == "new_param":
                n = RNode(nid, "P")
                n.value = float(op[2])
            elif k == "new_func":
                key, args = op[2], op[3]
                sig = LIB[key][0]
                if len(args) != len(sig):
                    return False
                for a, t in zip(args, sig):
                    if not g.has(a) or g.nodes[a].typ != t:
                        return False
                n = RNode(nid, "F")
                n.fkey = ("lib", key)
                n.params = list(args)
                n.countable = True
            elif k == "new_alias":
                if not g.has(op[2]):
                    return False
                n = RNode(nid, "A")
                n.params = [op[2]]
                n.typ = g.nodes[op[2]].typ
            elif k == "new_seq":
                if not op[3] or not all(g.has(a) and g.nodes[a].typ == "s" for a in op[3]):
                    return False
                n = RNode(nid, op[2])
                n.params = list(op[3])
                n.typ = "q"
            elif k == "new_fallback":
                if not op[2] or not all(g.has(a) and g.nodes[a].typ == "s" for a in op[2]):
                    return False
                n = RNode(nid, "B")
                n.params = list(op[2])
            elif k == "new_unop":
                if not g.has(op[3]) or g.nodes[op[3]].typ != "s":
                    return False
                n = RNode(nid, "F")
                n.fkey = ("un", op[2])
                n.params = [op[3]]
            elif k == "new_binop":
                a, b, rev = op[3], op[4], op[5]
                if not g.has(a) or g.nodes[a].typ != "s":
                    return False
                if b[0] == "node":
                    if not g.has(b[1]) or g.nodes[b[1]].typ != "s":
                        return False
                    bid = b[1]
                else:
                    # literal operand: an anonymous parameter node (id = -nid-1, never addressed by ops)
                    bid = -nid - 1
                    lit = RNode(bid, "P")
                    lit.value = float(b[1])
                    g.nodes[bid] = lit
                n = RNode(nid, "F")
                n.fkey = ("bin", op[2])
                n.params = [bid, a] if rev else [a, bid]
            else:
                return False
            g.nodes[nid] = n
            self.next_id = max(self.next_id, nid + 1)
            if self.knobs["mode"] == "nexus":
                self.registered[self.name_of(nid)] = nid
            return True
        if k == "set":
            return g.has(op[1]) and g.nodes[op[1]].kind == "P" and self._assign(op[1], float(op[2]))
        if k == "read":
            return g.has(op[1])
        if k == "freeze":
            return g.has(op[1]) and g.nodes[op[1]].kind != "P" and not g.nodes[op[1]].frozen
        if k == "freeze_raw":
            # freeze WITHOUT reading first: the frozen value is whatever the node had cached, which the definition-level reference
            # cannot know.  The node is frozen with an opaque value: reads that depend on it are executed but not compared until it
            # is unfrozen again (what must hold is that everything is right again afterwards).
            if not (g.has(op[1]) and g.nodes[op[1]].kind != "P" and not g.nodes[op[1]].frozen):
                return False
            g.nodes[op[1]].frozen = True
            g.nodes[op[1]].frozen_val = None
            self.opaque.add(op[1])
            return True
        if k == "unfreeze":
            if not (g.has(op[1]) and g.nodes[op[1]].frozen):
                return False
            g.nodes[op[1]].frozen = False
            g.nodes[op[1]].frozen_val = None
            self.opaque.discard(op[1])
            return True
        if k == "replace":
            old, new = op[1], op[2]
            if not (g.has(old) and g.has(new)) or old == new:
                return False
            if g.nodes[old].typ != g.nodes[new].typ or old < 0 or new < 0:
                return False
            ps = g.parents(old)
            if not ps or not g.acyclic_after_subst(old, new):
                return False
            for p in ps:
                m = g.nodes[p]
                m.params = [new if c == old else c for c in m.params]
                m.deps = [new if c == old else c for c in m.deps]
            return True
        if k == "replace_child":
            p, old, new = op[1], op[2], op[3]
            if not (g.has(p) and g.has(old) and g.has(new)) or old == new:
                return False
            m = g.nodes[p]
            if old not in (m.params + m.deps) or g.nodes[old].typ != g.nodes[new].typ:
                return False
            if g.reaches(new, p):
                return False
            m.params = [new if c == old else c for c in m.params]
            m.deps = [new if c == old else c for c in m.deps]
            return True
        if k == "set_func":
            if not g.has(op[1]):
                return False
            m = g.nodes[op[1]]
            if m.kind != "F" or m.fkey[0] != "lib" or LIB[m.fkey[1]][0] != LIB[op[2]][0]:
                return False
            m.fkey = ("lib", op[2])
            return True
        if k == "setitem":
            t, i, item = op[1], op[2], op[3]
            if not g.has(t) or g.nodes[t].kind not in SEQ_KINDS or not (-len(g.nodes[t].params) <= i < len(g.nodes[t].params)):
                return False
            if item[0] == "node":
                if not g.has(item[1]) or g.nodes[item[1]].typ != "s" or g.reaches(item[1], t):
                    return False
                g.nodes[t].params[i] = item[1]
            else:
                bid = -1000 - len(g.nodes)
                lit = RNode(bid, "P")
                lit.value = float(item[1])
                g.nodes[bid] = lit
                g.nodes[t].params[i] = bid
            return True
        if k in ("add_dep", "cycle") and self.knobs["mode"] == "nexus":
            # Nexus.add_dependency addresses nodes by NAME: a node whose name was taken over by a replacement is not addressable
            for x in (op[1], op[2]):
                if g.has(x) and x >= 0 and self.registered.get(self.name_of(x)) != x:
                    return False
        if k == "add_dep":
            a, b = op[1], op[2]
            if not (g.has(a) and g.has(b)) or g.nodes[a].kind not in (("F", "A", "P") if self.knobs["mode"] == "nexus" else ("F", "A")):
                return False
            if g.nodes[a].kind == "P" and (a < 0 or self.registered.get(self.name_of(a)) != a or self.registered.get(self.name_of(b)) != b):
                return False
            if g.reaches(b, a):  # would close a cycle -> that is op 'cycle'
                return False
            g.nodes[a].deps.append(b)
            return True
        if k == "cycle":
            a, b = op[1], op[2]
            if not (g.has(a) and g.has(b)) or g.nodes[a].kind not in (("F", "A", "P") if self.knobs["mode"] == "nexus" else ("F", "A")):
                return False
            if not g.reaches(b, a):
                return False
            for h in (op[3] if len(op) > 3 else []):
                if not g.has(h) or h == a or g.reaches(h, a) or self.knobs["mode"] != "nexus" or h < 0 or self.registered.get(self.name_of(h)) != h:
                    return False
            if self.knobs["mode"] != "nexus":
                self.cycle_done = True  # free-standing nodes: the edge is added before the check (nothing promises its removal): the run ends here
            return True
        if k == "value_dict":
            return self.knobs["mode"] == "nexus"
        if k == "nx_replace":
            old, nid, spec, beh = op[1], op[2], op[3], op[4]
            if self.knobs["mode"] != "nexus" or not g.has(old) or nid in g.nodes or old < 0:
                return False
            nm = self.name_of(old)
            if self.registered.get(nm) != old or g.nodes[old].typ != "s":
                return False
            if beh == "replace_if_alias" and g.nodes[old].kind != "A":
                return False  # would be rejected: that is C19's subject
            if spec[0] == "param":
                n = RNode(nid, "P")
                n.value = float(spec[1])
            else:
                src = spec[2]
                if not g.has(src) or g.nodes[src].typ != "s" or LIB[spec[1]][0] != "s":
                    return False
                # the new node must not depend on a parent of the node it replaces (no cycle)
                if src == old or g.reaches(src, old) or any(g.reaches(src, par) for par in g.parents(old)):
                    return False
                n = RNode(nid, "F")
                n.fkey = ("lib", spec[1])
                n.params = [src]
                n.countable = True
            g.nodes[nid] = n
            for par in g.parents(old):
                if par == nid:
                    continue
                m = g.nodes[par]
                m.params = [nid if c == old else c for c in m.params]
                m.deps = [nid if c == old else c for c in m.deps]
            self.next_id = max(self.next_id, nid + 1)
            self.registered[nm] = nid
            self.alias_name[nid] = nm
            return True
        if k == "nx_named":
            nid = op[1]
            if self.knobs["mode"] != "nexus" or nid in g.nodes:
                return False
            if op[2] == "func":
                key, args = op[3], op[4]
                if len(args) != len(LIB[key][0]) or not all(g.has(a) and g.nodes[a].typ == "s" and self.registered.get(self.name_of(a)) == a for a in args):
                    return False
                n = RNode(nid, "F")
                n.fkey = ("lib", key)
                n.params = list(args)
                n.countable = True
            else:
                t = op[3]
                if not g.has(t) or self.registered.get(self.name_of(t)) != t:
                    return False
                n = RNode(nid, "A")
                n.params = [t]
                n.typ = g.nodes[t].typ
            g.nodes[nid] = n
            self.next_id = max(self.next_id, nid + 1)
            self.registered[self.name_of(nid)] = nid
            return True
        if k == "nx_placeholder":
            nf, ne, key = op[1], op[2], op[3]
            if self.knobs["mode"] != "nexus" or nf in g.nodes or ne in g.nodes or nf == ne or LIB.get(key, ("",))[0] != "s":
                return False
            e = RNode(ne, "E")
            f = RNode(nf, "F")
            f.fkey = ("lib", key)
            f.params = [ne]
            f.countable = True
            g.nodes[ne] = e
            g.nodes[nf] = f
            self.alias_name[ne] = "e%d" % ne  # the placeholder keeps its name when it is filled in
            self.next_id = max(self.next_id, nf + 1, ne + 1)
            self.registered[self.name_of(ne)] = ne
            self.registered[self.name_of(nf)] = nf
            return True
        if k == "nx_fill":
            if self.knobs["mode"] != "nexus" or not g.has(op[1]) or g.nodes[op[1]].kind != "E":
                return False
            g.nodes[op[1]].kind = "P"
            g.nodes[op[1]].value = float(op[2])
            return True
        if k == "drop":
            if not g.has(op[1]) or g.parents(op[1]) or g.nodes[op[1]].kind == "P":
                return False
            if self.knobs["mode"] == "nexus":
                return False
            g.nodes[op[1]].alive = False
            return True
        if k == "arm":
            return bool(self.knobs.get("faults")) and g.has(op[1]) and g.nodes[op[1]].kind == "F" and g.nodes[op[1]].countable
        return False

    def _assign(self, nid, v):
        self.g.nodes[nid].value = v
        return True


class Exec(object):
    """Executes ops on real kafe2 nodes and on the reference in lock step."""

    def __init__(self, knobs, world, res, log):
        self.knobs = knobs
        self.world = world
        self.res = res
        self.log = log
        self.gs = GenState(knobs)
        self.real = {}  # id -> real node
        self.cnt = {}  # id -> Counted (current function of a counted Function node)
        self.dirty = {}  # id -> bool: evaluation permitted
        self.nexus = nx.Nexus() if knobs["mode"] == "nexus" else None
        self.n_mut = 0
        self.read_after_mut = 0
        self._mut_since_read = False
        self.tainted_by_fault = False

    # -- reference-side dirtiness (permission to evaluate)
    def mark_dirty(self, nid):
        for d in self.gs.g.dependents(nid):
            self.dirty[d] = True

    def snapshot_counts(self):
        return {i: (c.calls, c.ok) for i, c in self.cnt.items()}

    def state_vector(self):
        items = []
        for i in sorted(self.real):
            n = self.real[i]
            items.append((i, type(n).__name__, bool(n._stale), bool(n._frozen)))
        edges = []
        for i in sorted(self.real):
            rn = self.gs.g.nodes.get(i)
            if rn is not None:
                edges.append((i, tuple(rn.params), tuple(rn.deps)))
        self.res.states.add(h64(items, edges))

    def viol(self, oracle, observable, msg, step, expected=None, actual=None):
        raise Violation(PROP, oracle, observable, msg, step=step, expected=expected, actual=actual, extra={"tags": sorted(self.gs.g.events)})

    # -- reads with oracle
    def checked_read(self, step, nid, what="read"):
        g = self.gs.g
        before = self.snapshot_counts()
        opaque = self.gs.depends_on_opaque(nid)
        exp = g.safe_eval(nid) if not opaque else ("opaque", None)
        node = self.real[nid]
        fault = False
        try:
            val = node.value
            if isinstance(val, np.ndarray):
                val = val.copy()
            got = ("ok", val)
        except SimFault:
            fault = True
            got = ("fault", None)
        except Exception as e:  # noqa
            got = ("exc", type(e).__name__)
        after = self.snapshot_counts()
        # call-count oracles
        for i, (c1, k1) in after.items():
            c0, k0 = before.get(i, (0, 0))
            if k1 - k0 > 1:
                self.viol("once", "calls", "function node %d evaluated %d times successfully during one read of node %d" % (i, k1 - k0, nid), step, 1, k1 - k0)
            if c1 > c0 and not self.dirty.get(i, True):
                self.viol("needed", "calls", "function node %d re-evaluated during read of node %d although none of its inputs was assigned since its last evaluation" % (i, nid), step, 0, c1 - c0)
            if k1 > k0:
                self.dirty[i] = False
        if fault:
            self.res.bump("fault_F2_fired")
            self.log.add([what, nid], "fault", None)
            return None
        if opaque:
            if any(g.nodes[x].kind == "B" for x in g.nodes if g.nodes[x].alive and (x == nid or g.reaches(nid, x))):
                g.events.add("fallback_after_failed_alternative")  # a fallback may have skipped an alternative during this unjudged read
            self.res.bump("read_not_compared_opaque_frozen_input")
            self.log.add([what, nid], "opaque")
            return None  # (call-count oracles above were still applied; they do not depend on values)
        if exp[0] == "ok":
            if got[0] != "ok":
                self.viol("value", "raise", "read of node %d raised %s, reference value %r" % (nid, got[1], exp[1]), step, exp[1], got[1])
            e = exp[1]
            if g.nodes[nid].kind == "R" or (g.nodes[nid].kind == "A" and isinstance(e, list)):
                e = np.array(e, dtype=float)
            if isinstance(e, list):
                e = np.array(e, dtype=float)
            if not values_equal_exact(got[1], e):
                self.viol("value", "value", "read of node %d returned %r, from-scratch evaluation gives %r" % (nid, got[1], exp[1]), step, exp[1], got[1])
        else:
            if got[0] == "ok":
                self.viol("value", "noraise", "read of node %d returned %r, reference evaluation raises %s" % (nid, got[1], exp[1]), step, exp[1], got[1])
            if got[1] != exp[1] and got[1] not in g.failure_types(nid):
                self.viol("value", "exctype", "read of node %d raised %s, reference raises %s" % (nid, got[1], exp[1]), step, exp[1], got[1])
        self.log.add([what, nid], got[0], got[1])
        if self._mut_since_read:
            self.read_after_mut += 1
            self._mut_since_read = False
        return got

    def new_real(self, nid, node):
        self.real[nid] = node
        self.dirty[nid] = True
        if self.nexus is not None:
            self.nexus.add(node, add_children=True, existing_behavior="fail")

    def make_counted(self, key, nid):
        c = Counted(key, nid)
        self.cnt[nid] = c
        return c

    def step(self, step, op):
        gs = self.gs
        g = gs.g
        k = op[0]
        # cycle op needs the pre-state for the real call; apply() flips cycle_done
        if not gs.apply(op):
            self.res.bump("op_skipped")
            return
        self.res.bump("op_" + k)
        R = self.real
        mut = True
        if k == "new_param":
            self.new_real(op[1], nx.Parameter(float(op[2]), name=gs.name_of(op[1])))
        elif k == "new_func":
            f = self.make_counted(op[2], op[1])
            self.new_real(op[1], nx.Function(f, name=gs.name_of(op[1]), parameters=[R[a] for a in op[3]]))
        elif k == "new_alias":
            self.new_real(op[1], nx.Alias(R[op[2]], name=gs.name_of(op[1])))
        elif k == "new_seq":
            cls = nx.Tuple if op[2] == "T" else nx.Array
            self.new_real(op[1], cls([R[a] for a in op[3]], name=gs.name_of(op[1])))
        elif k == "new_fallback":
            self.new_real(op[1], nx.Fallback([R[a] for a in op[2]], name=gs.name_of(op[1])))
        elif k == "new_unop":
            a = R[op[3]]
            node = {"neg": lambda: -a, "abs": lambda: abs(a)}[op[2]]()
            node.name = gs.name_of(op[1])
            self.new_real(op[1], node)
        elif k == "new_binop":
            a = R[op[3]]
            b = R[op[4][1]] if op[4][0] == "node" else float(op[4][1])
            o = op[2]
            if op[5]:
                node = {"add": lambda: b + a, "sub": lambda: b - a, "mul": lambda: b * a}[o]()
            else:
                node = {"add": lambda: a + b, "sub": lambda: a - b, "mul": lambda: a * b}[o]()
            node.name = gs.name_of(op[1])
            if op[4][0] == "lit":
                lit = node.parameters[0] if op[5] else node.parameters[1]
                R[-op[1] - 1] = lit
            self.new_real(op[1], node)
        elif k == "set":
            R[op[1]].value = float(op[2])
            self.mark_dirty(op[1])
        elif k == "read":
            mut = False
            self.checked_read(step, op[1])
        elif k == "freeze":
            got = self.checked_read(step, op[1], "freeze-read")
            if got is not None and got[0] == "ok":
                R[op[1]].freeze()
                g.nodes[op[1]].frozen = True
                v = got[1]
                g.nodes[op[1]].frozen_val = v.tolist() if isinstance(v, np.ndarray) else v
            else:
                mut = False
        elif k == "freeze_raw":
            R[op[1]].freeze()
            self.res.probe("freeze_while_stale" if R[op[1]]._stale else "freeze_raw_fresh")
        elif k == "unfreeze":
            R[op[1]].unfreeze()
            self.mark_dirty(op[1])
        elif k == "replace":
            old, new = op[1], op[2]
            parents_before = None
            R[old].replace(R[new])
            self.mark_dirty(new)
            del parents_before
        elif k == "replace_child":
            R[op[1]].replace_child(R[op[2]], R[op[3]])
            self.mark_dirty(op[1])
        elif k == "set_func":
            f = self.make_counted(op[2], op[1])
            R[op[1]].func = f
            self.mark_dirty(op[1])
        elif k == "setitem":
            t, i, item = op[1], op[2], op[3]
            if item[0] == "node":
                R[t][i] = R[item[1]]
            else:
                R[t][i] = float(item[1])
                R[g.nodes[t].params[i]] = R[t][i]
            self.mark_dirty(t)
        elif k == "add_dep":
            if self.nexus is not None:
                self.nexus.add_dependency(gs.name_of(op[1]), gs.name_of(op[2]))
            else:
                R[op[1]].add_child(R[op[2]])
                nx.NodeCycleChecker(R[op[1]]).run()
            self.mark_dirty(op[1])
        elif k == "cycle":
            raised = False
            try:
                if self.nexus is not None:
                    if len(op) > 3 and op[3]:
                        self.res.probe("cycle_closing_entry_in_a_dependency_list")
                        self.nexus.add_dependency(gs.name_of(op[1]), [gs.name_of(h) for h in op[3]] + [gs.name_of(op[2])])
                    else:
                        self.nexus.add_dependency(gs.name_of(op[1]), gs.name_of(op[2]))
                else:
                    # free-standing nodes: the same two public steps add_dependency performs
                    R[op[1]].add_child(R[op[2]])
                    nx.NodeCycleChecker(R[op[1]]).run()
            except RecursionError:
                raised = False
            except Exception:
                raised = True
            self.log.add(op, "raised" if raised else "accepted")
            if not raised:
                self.viol("cycle", "accepted", "dependency %d -> %d closes a cycle but was accepted" % (op[1], op[2]), step)
        elif k == "value_dict":
            mut = False
            self.value_dict(step, op[1])
        elif k == "nx_replace":
            old, nid, spec, beh = op[1], op[2], op[3], op[4]
            nm = gs.name_of(nid)
            if spec[0] == "param":
                node = nx.Parameter(float(spec[1]), name=nm)
            else:
                f = self.make_counted(spec[1], nid)
                node = nx.Function(f, name=nm, parameters=[R[spec[2]]])
            self.nexus.add(node, existing_behavior=beh)
            R[nid] = node
            self.dirty[nid] = True
            self.mark_dirty(nid)
        elif k == "nx_named":
            nid = op[1]
            if op[2] == "func":
                f = self.make_counted(op[3], nid)
                node = self.nexus.add_function(f, func_name=gs.name_of(nid), par_names=[gs.name_of(a) for a in op[4]])
            else:
                node = self.nexus.add_alias(gs.name_of(nid), alias_for=gs.name_of(op[3]))
            R[nid] = node
            self.dirty[nid] = True
        elif k == "nx_placeholder":
            nf, ne = op[1], op[2]
            f = self.make_counted(op[3], nf)
            node = self.nexus.add_function(f, func_name=gs.name_of(nf), par_names=[gs.name_of(ne)])
            R[nf] = node
            R[ne] = self.nexus.get(gs.name_of(ne))
            self.dirty[nf] = True
            self.dirty[ne] = True
            self.res.probe("empty_placeholder_created")
        elif k == "nx_fill":
            p = nx.Parameter(float(op[2]), name=gs.name_of(op[1]))
            self.nexus.add(p, existing_behavior="replace_if_empty")
            R[op[1]] = p
            self.mark_dirty(op[1])
            self.res.probe("empty_placeholder_filled")
        elif k == "drop":
            node = R.pop(op[1])
            self.cnt.pop(op[1], None)
            del node
            n = self.world.collect()
            self.res.bump("fault_F7_gc_fired")
            self.res.probe("gc_collected_objects", n)
        elif k == "arm":
            self.cnt[op[1]].armed = 1
            mut = False
        if mut:
            self.n_mut += 1
            self._mut_since_read = True
        self.state_vector()

    def value_dict(self, step, behaviour):
        gs = self.gs
        g = gs.g
        exp = {}
        errs = []
        first_exc = None
        opq = set(name for name, nid in gs.registered.items() if gs.depends_on_opaque(nid))
        if opq:
            # nodes downstream of a node frozen without a read are not comparable; with 'fail' one of them may legitimately raise
            self.res.bump("read_not_compared_opaque_frozen_input")
            if any(n.kind == "B" and n.alive and gs.depends_on_opaque(n.id) for n in g.nodes.values()):
                g.events.add("fallback_after_failed_alternative")  # a fallback may have skipped an alternative during this unjudged read
            b0 = self.snapshot_counts()
            try:
                self.nexus.get_value_dict(error_behavior="ignore")
            except SimFault:
                self.res.bump("fault_F2_fired")
            for i, (c1, k1) in self.snapshot_counts().items():
                c0, k0 = b0.get(i, (0, 0))
                if k1 - k0 > 1:
                    self.viol("once", "calls", "function node %d evaluated %d times during one get_value_dict" % (i, k1 - k0), step, 1, k1 - k0)
                if c1 > c0 and not self.dirty.get(i, True):
                    self.viol("needed", "calls", "function node %d re-evaluated by get_value_dict without an input assignment" % i, step, 0, c1 - c0)
                if k1 > k0:
                    self.dirty[i] = False
            self.log.add(["value_dict", behaviour], "opaque")
            return
        for name, nid in gs.registered.items():
            r = g.safe_eval(nid)
            if r[0] == "ok":
                exp[name] = r[1]
            else:
                errs.append(name)
                if first_exc is None:
                    first_exc = r[1]
        before = self.snapshot_counts()
        try:
            d = self.nexus.get_value_dict(error_behavior=behaviour)
            got = ("ok", d)
        except SimFault:
            self.res.bump("fault_F2_fired")
            self.log.add(["value_dict", behaviour], "fault")
            # evaluations may have happened: refresh permission bookkeeping conservatively
            for i, (c1, k1) in self.snapshot_counts().items():
                if k1 > before.get(i, (0, 0))[1]:
                    self.dirty[i] = False
            return
        except Exception as e:  # noqa
            got = ("exc", type(e).__name__)
        after = self.snapshot_counts()
        for i, (c1, k1) in after.items():
            c0, k0 = before.get(i, (0, 0))
            if k1 - k0 > 1:
                self.viol("once", "calls", "function node %d evaluated %d times during one get_value_dict" % (i, k1 - k0), step, 1, k1 - k0)
            if c1 > c0 and not self.dirty.get(i, True):
                self.viol("needed", "calls", "function node %d re-evaluated by get_value_dict without an input assignment" % i, step, 0, c1 - c0)
            if k1 > k0:
                self.dirty[i] = False
        if behaviour == "fail" and errs:
            if got[0] != "exc":
                self.viol("value", "noraise", "get_value_dict('fail') returned although nodes %r fail" % errs, step)
            self.log.add(["value_dict", behaviour], "exc", got[1])
            return
        if got[0] != "ok":
            self.viol("value", "raise", "get_value_dict(%r) raised %s" % (behaviour, got[1]), step)
        d = dict(got[1])
        if behaviour == "list":
            lst = d.pop("__error__", [])
            if sorted(lst) != sorted(errs):
                self.viol("value", "errlist", "get_value_dict('list') error list %r, reference %r" % (sorted(lst), sorted(errs)), step, sorted(errs), sorted(lst))
        elif behaviour in ("none", "exception_as_value"):
            # how a failing node is represented is get_value_dict's documented detail, not part of C04's statement:
            # a placeholder (None / the exception) or no entry are both accepted; a *value* is not.
            for n in errs:
                if n in d:
                    v = d.pop(n)
                    if v is not None and not isinstance(v, Exception):
                        self.viol("value", "noraise", "get_value_dict(%r): failing node %s reported with value %r" % (behaviour, n, v), step)
        # literal operands are anonymous nodes of the real graph: ignore names the reference does not know
        for n in list(d):
            if n not in gs.registered and n.startswith("Node_"):
                d.pop(n)
        if sorted(d) != sorted(exp):
            self.viol("value", "keys", "get_value_dict keys %r, reference %r" % (sorted(d), sorted(exp)), step, sorted(exp), sorted(d))
        for n, e in exp.items():
            v = d[n]
            if isinstance(e, list):
                e = np.array(e, dtype=float)
            if not values_equal_exact(v, e):
                self.viol("value", "value", "get_value_dict: node %s is %r, from-scratch evaluation gives %r" % (n, v, e), step, e, v)
        self.log.add(["value_dict", behaviour], "ok", sorted(d))
        if self._mut_since_read:
            self.read_after_mut += 1
            self._mut_since_read = False

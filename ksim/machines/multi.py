"""M-MULTI (C11, and the multi-fit leg of C10): a multi-fit is the sum of its parts, or the joint fit if errors are shared.

System: 1-3 member fits (xy / indexed with chi2-type costs, histogram and unbinned with nll) whose parameter names overlap
(disjoint, chain, identical), one MultiFit; the members stay reachable.  Operations are issued at the multi-fit OR at a member
(after the multi-fit exists): set / set_all / fix / release / add_error(fits = i | [i, j] | 'all') / constraints on either level /
do_fit on the multi-fit / reads on every party; gc and seeded notification order as faults.
Invariants after every operation:
  I1 agree   : every shared parameter name holds one common value in the multi-fit and in all members (==)
  I2 sum     : multi.cost == sum of the costs the members report (no shared source)            [rtol 1e-9]
     joint   : with a source shared by members J (y axis, absolute): cost of ONE joint fit of the concatenated data whose covariance
               carries the shared matrix in every diagonal and off-diagonal block between the sharing members (closed form)
  I3 single  : a multi-fit of a single fit reproduces that fit's do_fit results (minimizer tolerance)
  I4 blocks  : after multi.do_fit every member reports values / errors / cov / cor equal to the sub-blocks of the multi-fit result (==)
  I5 count   : (property C10) ndf = data points + constraint measurements - distinct parameters + fixed; chi2 probability / GoF formulas
"""
import numpy as np
from scipy.stats import chi2 as chi2_dist

from .. import fitlib, userlib
from ..core import Machine, Streams, Violation, h64
from ..fitlib import FitSim, NotApplicable
from ..refmodel.container import RefSource
from ..refmodel.cost import RefConstraint

MODELS = {"xy": ["linear", "quadratic", "linear_ac", "linear_cb"], "indexed": ["affine", "three", "affine_ca"], "hist": ["normal"], "unbinned": ["normal"]}


def _member_spec(rng, t, n=None):
    cost = {"xy": rng.choice(["chi2", "chi2", "chi2_covariance"]), "indexed": rng.choice(["chi2", "chi2", "chi2_covariance"]), "hist": "nll", "unbinned": "nll"}[t]
    for _ in range(50):
        spec = fitlib.gen_new(rng, t, cost=cost, nmax=6, models=(MODELS[t] if t in ("xy", "indexed") else None))
        if spec["model"] in MODELS[t] and (n is None or t not in ("xy", "indexed") or fitlib.size_of(spec) == n):
            break
    spec["tiny"] = False
    spec["minimizer"] = "iminuit"
    spec["dea"] = "nonlinear"
    if t == "hist":
        spec["bin_eval"] = "antiderivative"
        spec["as_numpy"] = False
    return spec


class MultiMachine(Machine):
    name = "multi"
    properties = ("C11", "C10")

    def generate(self, seed, tier, idx):
        st = Streams(seed)
        sw = st("swarm")
        rng = st("ops")
        k = [1, 2, 2, 3, 2, 3, 1, 2][idx % 8]
        share = k >= 2 and (idx // 8) % 2 == 0
        types = []
        for i in range(k):
            types.append(rng.choice(["xy", "indexed", "xy", "indexed", "hist", "unbinned"]) if not (share and i < 2) else rng.choice(["xy", "indexed"]))
        members = []
        n_share = None
        for i, t in enumerate(types):
            sp = _member_spec(rng, t, n=n_share if (share and i < 2) else None)
            if share and i == 0:
                n_share = fitlib.size_of(sp)
            members.append(sp)
        same_data = False
        if share and st("same_data").random() < 0.3 and fitlib.size_of(members[0]) == fitlib.size_of(members[1]):
            # members 0 and 1 measure the same values: a source RELATIVE to the data can be shared between them
            a, b = members[0], members[1]
            ya = a["y"] if a["type"] == "xy" else a["d"]
            if b["type"] == "xy":
                b["y"] = list(ya)
                if a["type"] == "xy":
                    b["x"] = list(a["x"])
            else:
                b["d"] = list(ya)
            same_data = True
        ops = [["new", members, sw.choice(["iminuit", "iminuit", "scipy"])]]
        variant = sw.choice(["plain", "plain", "pre", "pre", "bare", "nodet"])
        if variant == "nodet" and not share:
            for sp in members:
                if sp["type"] in ("xy", "indexed") and rng.random() < 0.6:
                    sp["nodet"] = True  # documented option add_determinant_cost=False
        if variant == "pre":
            # the members have a life before the multi-fit is built: start values, fixed / limited parameters, own sources, constraints
            for _ in range(rng.randint(1, 4)):
                i = rng.randrange(k)
                nm = rng.choice(fitlib.par_names(members[i]))
                v = self._val(rng, members, nm)
                r = rng.random()
                if r < 0.3:
                    ops.append(["pre", i, ["set", {nm: v}]])
                elif r < 0.6:
                    ops.append(["pre", i, ["fix", [nm, None if rng.random() < 0.5 else v]]])
                elif r < 0.8:
                    ops.append(["pre", i, ["limit", [nm, v - abs(v) - 1.0, v + abs(v) + 1.0]]])
                else:
                    ops.append(["pre", i, ["constraint", {"par": nm, "value": v if v != 0 else 0.5, "unc": rng.choice([0.1, 0.5]), "rel": False}]])
        # each chi2 member gets a base source so that its total is positive definite
        for i, sp in enumerate(members):
            if variant == "bare" and not share and sp["cost"] == "chi2" and rng.random() < 0.5:
                continue  # a member without any uncertainty: the implicit chi2 without errors
            if sp["type"] in ("xy", "indexed"):
                ops.append(["add_error", {"at": rng.choice(["member", "multi"]), "fits": i, "axis": "y" if sp["type"] == "xy" else None, "err": fitlib.gen_errval(rng, fitlib.size_of(sp), False),
                                          "corr": rng.choice([0.0, 0.0, 0.3]), "rel": False, "name": "b%d" % i}])
        allnames = []
        for sp in members:
            for nm in fitlib.par_names(sp):
                if nm not in allnames:
                    allnames.append(nm)
        n_ops = sw.randint(3, 10 if tier == "quick" else 20)
        nsh = 0
        for _ in range(n_ops):
            r = rng.random()
            at = rng.choice(["multi", "member"])
            i = rng.randrange(k)
            if r < 0.25:
                if at == "multi":
                    nm = rng.choice(allnames)
                    ops.append(["set", {"at": "multi", "vals": {nm: self._val(rng, members, nm)}}])
                else:
                    nm = rng.choice(fitlib.par_names(members[i]))
                    ops.append(["set", {"at": i, "vals": {nm: self._val(rng, members, nm)}}])
            elif r < 0.33:
                ops.append(["set_all", [self._val(rng, members, nm) for nm in allnames]])
            elif r < 0.43:
                nm = rng.choice(allnames)
                ops.append(["fix", {"at": "multi", "name": nm, "value": None if rng.random() < 0.5 else self._val(rng, members, nm)}])
            elif r < 0.5:
                if rng.random() < 0.25:
                    nm = rng.choice(fitlib.par_names(members[i]))
                    ops.append(rng.choice([["fix", {"at": i, "name": nm, "value": self._val(rng, members, nm)}], ["release", {"at": i, "name": nm}]]))
                else:
                    ops.append(["release", {"at": "multi", "name": rng.choice(allnames)}])
            elif r < 0.6 and share and nsh < 2:
                J = [0, 1] if k == 2 or rng.random() < 0.6 else sorted(rng.sample(range(k), 2))
                ok = all(members[j]["type"] in ("xy", "indexed") for j in J) and len(set(fitlib.size_of(members[j]) for j in J)) == 1
                if ok:
                    n = fitlib.size_of(members[J[0]])
                    axis = "x" if all(members[j]["type"] == "xy" for j in J) and rng.random() < 0.35 else "y"
                    a = {"fits": J if rng.random() < 0.7 or len(J) != k else "all", "axis": axis, "err": fitlib.gen_errval(rng, n, False),
                         "corr": rng.choice([0.0, 0.5, 1.0]), "name": "sh%d" % nsh}
                    if same_data and J == [0, 1] and rng.random() < 0.6 and (axis == "y" or members[0].get("x") == members[1].get("x")):
                        a["rel"] = True
                        a["err"] = fitlib.gen_errval(rng, n, True)
                    if rng.random() < 0.3:
                        # a shared covariance matrix
                        B = np.array([[rng.choice([-0.2, -0.1, 0.0, 0.1, 0.2]) for _ in range(2)] for _ in range(n)])
                        M = B.dot(B.T) + np.diag([rng.choice([0.01, 0.02, 0.04]) for _ in range(n)])
                        a["mat"] = np.round(0.5 * (M + M.T), 6).tolist()
                    ops.append(["add_shared", a])
                    nsh += 1
            elif r < 0.63 and nsh:
                ops.append(["toggle_shared", {"name": "sh%d" % rng.randrange(nsh), "enable": rng.random() < 0.4}])
            elif r < 0.68:
                sp = members[i]
                if sp["type"] in ("xy", "indexed"):
                    ax = None if sp["type"] != "xy" else ("x" if rng.random() < 0.3 else "y")
                    ops.append(["add_error", {"at": rng.choice(["member", "multi"]), "fits": i, "axis": ax,
                                              "err": fitlib.gen_errval(rng, fitlib.size_of(sp), False), "corr": rng.choice([0.0, 0.3, 1.0]), "rel": rng.random() < 0.2, "name": None,
                                              "ref": "model" if (ax != "x" and rng.random() < 0.3) else "data"}])
            elif r < 0.78:
                nm = rng.choice(allnames)
                v = self._val(rng, members, nm)
                lvl = rng.choice(["multi", "member"])
                ops.append(["constraint", {"at": lvl, "fit": i, "par": nm, "value": v if v != 0 else 0.5, "unc": rng.choice([0.1, 0.5, 1.0]), "rel": False}])
            elif r < 0.84:
                ops.append(["do_fit"])
            elif r < 0.88:
                ops.append(["gc"])
            else:
                ops.append(["read", rng.choice(["cost", "ndf", "gof", "chi2p", "member_cost"]), i])
        ops.append(["read", "cost", 0])
        ops.append(["read", "ndf", 0])
        ops.append(["read", "gof", 0])
        ops.append(["read", "chi2p", 0])
        if sw.random() < 0.5:
            ops.append(["do_fit"])
            ops.append(["read", "blocks", 0])
        return {"machine": self.name, "seed": seed, "knobs": {"order": sw.choice(["shuffle", "insertion", "reverse"])}, "ops": ops}

    def _val(self, rng, members, nm):
        for sp in members:
            names = fitlib.par_names(sp)
            if nm in names:
                v = sp["ptrue"][names.index(nm)]
                return round(v * (1 + 0.2 * (2 * rng.random() - 1)) + (0.05 if v == 0 else 0.0), 4)
        return 1.0

    def case_tag(self, case):
        ms = case["ops"][0][1]
        return "+".join(m["type"] for m in ms)

    def fingerprint(self, case, v):
        ms = case["ops"][0][1] if case["ops"] and case["ops"][0][0] == "new" else []
        kinds = []
        for op in case["ops"][1:]:
            k = op[0]
            if k in ("set", "fix", "release", "constraint", "add_error"):
                k = "%s@%s" % (k, op[1].get("at") if not isinstance(op[1].get("at"), int) else "member")
            if k == "read":
                continue
            if k not in kinds:
                kinds.append(k)
        return ";".join([v.get("oracle", "?"), v.get("observable", "?"), "members:" + "+".join(m["type"] for m in ms)] + kinds + list((v.get("extra") or {}).get("tags", [])))

    # ------------------------------------------------------------------ execution
    def execute(self, case, world, res, log):
        prop = case.get("property", "C11")
        ops = case["ops"]
        if not ops or ops[0][0] != "new":
            return
        K = fitlib.kf()
        userlib.reset_calls()
        specs = ops[0][1]
        sims = [FitSim(sp) for sp in specs]
        solo = None
        if len(sims) == 1:
            solo = FitSim(specs[0])  # I3: the same fit on its own
        for op in ops[1:]:
            if op[0] == "pre" and op[1] < len(sims):
                try:
                    sims[op[1]].apply(op[2])
                    res.probe("member_op_before_multifit:" + op[2][0])
                    solo = None  # (I3 compares with a fit that has no such history)
                except NotApplicable:
                    pass
        multi = K.MultiFit([s.fit for s in sims], minimizer=ops[0][2])
        names = list(multi.parameter_names)
        shared = []  # (RefSource, J)
        multi_constraints = []
        fixed = set()
        for s in sims:
            fixed.update(s.ref.fixed)  # a parameter fixed in a member before the multi-fit was built stays fixed
        for s in sims:
            for nm in fixed:
                if nm in s.ref.par_names:
                    s.ref.fixed[nm] = True
        n_mut = 0
        fitted = False
        stale_results = False
        member_fix_used = False
        fixed_multi = set()  # names fixed through the multi-fit itself
        pre_limited = set(o[2][1][0] for o in ops if o[0] == "pre" and o[2][0] == "limit")  # (a value outside a member's limits is clamped by the minimizer)
        member_set_used = False  # a value assigned on a MEMBER: how it reaches the multi-fit's minimizer is outside the statement ("operations issued on the multi-fit")

        def viol(p, oracle, obs, msg, step, **kw):
            if p != prop:
                return  # one check flags only its own property (C11: I1-I4, C10: I5)
            raise Violation(p, oracle, obs, msg, step=step, **kw)

        def pvals():
            return [float(v) for v in multi.parameter_values]

        def in_domain():
            p = pvals()
            for s in sims:
                sub = [p[names.index(nm)] for nm in s.ref.par_names]
                if s.domain_ok(sub):
                    return False
            return True

        def joint_cost(with_det=True, gof=False):
            """Closed form for chi2 members joined by shared sources + the costs the other members report.
            V = Vy + Vx o (f' f'^T) on the concatenated data; Vy / Vx carry the members' own sources in the diagonal blocks and
            every enabled shared source of that axis in the diagonal and off-diagonal blocks between the sharing members."""
            p = pvals()
            chi = [i for i, s in enumerate(sims) if s.ref.effective_cost_id().startswith("chi2")]
            offs = {}
            o = 0
            for i in chi:
                offs[i] = o
                o += len(sims[i].ref.d)
            Vy = np.zeros((o, o))
            Vx = np.zeros((o, o))
            g = np.zeros(o)
            r = np.zeros(o)
            cc = 0.0
            for i in chi:
                s = sims[i]
                sub = [p[names.index(nm)] for nm in s.ref.par_names]
                n = len(s.ref.d)
                sl = slice(offs[i], offs[i] + n)
                Vy[sl, sl] = s.ref.cov_axis(1, sub)
                if s.ref.ftype == "xy":
                    Vx[sl, sl] = s.ref.cov_axis(0, sub)
                    g[sl] = s.ref.slope(sub)
                r[sl] = s.ref.d - s.ref.model(sub)
                cc += s.ref.constraint_cost(sub)
            for src, J in shared:
                if not src.enabled:
                    continue
                for a in J:
                    for b in J:
                        if a != b and a in offs and b in offs:
                            n = len(sims[a].ref.d)
                            vals = sims[a].ref.x if src.axis == 0 else sims[a].ref.d  # (identical in all sharing members for a relative source)
                            (Vx if src.axis == 0 else Vy)[offs[a]:offs[a] + n, offs[b]:offs[b] + n] += src.cov(vals if src.relative else np.zeros(n))
            V = Vy + Vx * np.outer(g, g)
            ev = np.linalg.eigvalsh(0.5 * (V + V.T)) if V.size else np.array([1.0])
            if ev.min() <= 0 or ev.max() / ev.min() > 1e7:
                return None  # joint covariance not positive definite / ill-conditioned: outside the property's domain
            c = float(r.dot(np.linalg.solve(V, r)))
            if with_det:
                c += float(np.linalg.slogdet(V)[1])
            for i, s in enumerate(sims):
                if i not in chi:
                    if gof:
                        sub = [p[names.index(nm)] for nm in s.ref.par_names]
                        c += float(s.ref.gof(sub))  # cost minus saturated cost of that member (reference side)
                    else:
                        c += float(s.fit.cost_function_value)
            c += cc + sum(k.cost(np.asarray(p)) for k in multi_constraints)
            return c

        def x_involved():
            return any(s.ref.ftype == "xy" and s.ref.has_enabled(0) for s in sims)

        def check_invariants(step, after):
            # I1
            p = pvals()
            for i, s in enumerate(sims):
                mv = s.fit.parameter_name_value_dict
                for nm in s.ref.par_names:
                    if float(mv[nm]) != p[names.index(nm)]:
                        viol("C11", "agree", "parameter:" + nm, "after %s parameter %s is %r in the multi-fit but %r in member %d" % (after, nm, p[names.index(nm)], float(mv[nm]), i), step,
                             extra={"tags": [after]})
            res.bump("invariant_I1")
            if not in_domain():
                res.bump("cost_invariant_skipped_out_of_domain")
                return
            # I2
            mc = float(multi.cost_function_value)
            if not shared:
                ssum = float(sum(float(s.fit.cost_function_value) for s in sims)) + float(sum(k.cost(np.asarray(p)) for k in multi_constraints))
                if not abs(mc - ssum) <= 1e-9 * (abs(ssum) + 1.0):
                    viol("C11", "sum", "cost", "after %s the multi-fit cost is %.12g, the member fits report %s (sum %.12g%s)" % (
                        after, mc, [float(s.fit.cost_function_value) for s in sims], ssum, " incl. multi-level constraints" if multi_constraints else ""), step,
                        expected=ssum, actual=mc, extra={"tags": [after] + (["multi-level-constraint"] if multi_constraints else [])})
                res.bump("invariant_I2_sum")
            else:
                jc = joint_cost()
                if jc is None:
                    res.bump("cost_invariant_skipped_out_of_domain")
                    return
                if not abs(mc - jc) <= (1e-6 if x_involved() else 1e-8) * (abs(jc) + 1.0):
                    tags = [after]
                    if x_involved():
                        tags.append("x-errors")
                    if any(s.ref.constraints for s in sims):
                        tags.append("member-constraint-with-shared-source")
                    viol("C11", "joint", "cost", "after %s the multi-fit cost is %.12g, the joint fit of the concatenated data with the shared block structure gives %.12g" % (
                        after, mc, jc), step, expected=jc, actual=mc, extra={"tags": tags})
                res.bump("invariant_I2_joint")

        def expected_ndf():
            nd = sum(len(s.ref.d) for s in sims)
            nc = sum(c.extra_ndf for s in sims for c in s.ref.constraints) + sum(c.extra_ndf for c in multi_constraints)
            return nd + nc - len(names) + len(fixed)

        check_invariants(0, "construction")
        for step, op in enumerate(ops[1:], start=1):
            k = op[0]
            a = op[1] if len(op) > 1 else None
            try:
                if k == "gc":
                    world.collect()
                    res.bump("fault_F7_gc_fired")
                    continue
                if k == "set":
                    if a["at"] == "multi":
                        if any(nm not in names for nm in a["vals"]):
                            continue
                        multi.set_parameter_values(**a["vals"])
                    else:
                        if a["at"] >= len(sims) or any(nm not in sims[a["at"]].ref.par_names for nm in a["vals"]):
                            continue
                        sims[a["at"]].fit.set_parameter_values(**a["vals"])
                        member_set_used = True
                    after = "set@%s" % ("multi" if a["at"] == "multi" else "member")
                elif k == "set_all":
                    if len(a) != len(names):
                        continue
                    multi.set_all_parameter_values(list(a))
                    after = "set_all@multi"
                elif k in ("fix", "release") and a.get("at", "multi") != "multi":
                    # issued on a member after the multi-fit exists: the statement demands one common value (I1) and the cost invariants;
                    # how the fixed status of a member propagates is not specified, so the counting oracles (C10 leg) are switched off from here on
                    i = a["at"]
                    if i >= len(sims) or a["name"] not in sims[i].ref.par_names:
                        continue
                    if k == "fix":
                        sims[i].fit.fix_parameter(a["name"], a["value"])
                    else:
                        if a["name"] not in sims[i].fit._fitter.fixed_parameters:
                            continue
                        sims[i].fit.release_parameter(a["name"])
                    member_fix_used = True
                    after = "%s@member" % k
                elif k == "fix":
                    if a["name"] not in names:
                        continue
                    multi.fix_parameter(a["name"], a["value"])
                    fixed.add(a["name"])
                    fixed_multi.add(a["name"])
                    for s in sims:
                        if a["name"] in s.ref.par_names:
                            s.ref.fixed[a["name"]] = True
                    after = "fix@multi"
                elif k == "release":
                    if a["name"] not in fixed:
                        continue
                    multi.release_parameter(a["name"])
                    fixed.discard(a["name"])
                    fixed_multi.discard(a["name"])
                    for s in sims:
                        s.ref.fixed.pop(a["name"], None)
                    after = "release@multi"
                elif k == "add_error":
                    i = a["fits"]
                    if i >= len(sims) or sims[i].spec["type"] not in ("xy", "indexed"):
                        continue
                    s = sims[i]
                    n = len(s.ref.d)
                    ev = a["err"]
                    evn = np.ones(n) * ev if not isinstance(ev, list) else np.array(ev, dtype=float)
                    if evn.shape != (n,):
                        continue
                    if a["name"] is not None and a["name"] in s.names:
                        continue
                    refw = a.get("ref", "data")
                    rel = bool(a["rel"]) and refw == "data"  # (model-relative sources: dynamic, kept out of the joint closed form)
                    kw = dict(err_val=ev, name=a["name"], correlation=a["corr"], relative=rel, reference=refw)
                    if a["at"] == "multi":
                        multi.add_error(fits=i, axis=a["axis"], **kw)
                        rn = a["name"]
                    else:
                        rn = s.fit.add_error(a["axis"], **kw) if s.spec["type"] == "xy" else s.fit.add_error(**kw)
                    src = RefSource(rn, 0 if a["axis"] == "x" else 1, "simple", rel, err=evn, corr=a["corr"])
                    s.ref.sources.append((src, refw))
                    s.names.append(rn)
                    s.src_where.append(refw)
                    if refw == "model":
                        res.probe("member_model_referenced_source")
                    after = "add_error@%s" % a["at"]
                elif k == "add_shared":
                    J = list(range(len(sims))) if a["fits"] == "all" else list(a["fits"])
                    if any(j >= len(sims) or sims[j].spec["type"] not in ("xy", "indexed") for j in J):
                        continue
                    if not all(s.ref.effective_cost_id().startswith("chi2") or s.spec["type"] in ("hist", "unbinned") for s in sims):
                        continue
                    if a["fits"] == "all" and any(s.spec["type"] not in ("xy", "indexed") for s in sims):
                        continue
                    n = len(sims[J[0]].ref.d)
                    if any(len(sims[j].ref.d) != n for j in J):
                        continue
                    ev = a["err"]
                    evn = np.ones(n) * ev if not isinstance(ev, list) else np.array(ev, dtype=float)
                    if evn.shape != (n,):
                        continue
                    axis = a.get("axis", "y")
                    if axis == "x" and any(sims[j].spec["type"] != "xy" for j in J):
                        continue
                    kax = None if all(sims[j].spec["type"] == "indexed" for j in J) else axis
                    rax = 0 if axis == "x" else 1
                    if a.get("mat") is not None:
                        M = np.array(a["mat"], dtype=float)
                        if M.shape != (n, n):
                            continue
                        multi.add_matrix_error(M, "cov", fits=a["fits"], axis=kax, name=a["name"])
                        mk = lambda: RefSource(a["name"], rax, "matrix", False, mat=M, mtype="cov")
                        res.probe("shared_matrix_source_added")
                    else:
                        rel = bool(a.get("rel"))
                        if rel:
                            refv = [np.asarray(sims[j].ref.x if axis == "x" else sims[j].ref.d, dtype=float) for j in J]
                            if any(v.shape != refv[0].shape or np.any(v != refv[0]) for v in refv):
                                continue  # a relative shared source needs identical reference values in all sharing members
                            res.probe("shared_relative_source_added")
                        multi.add_error(ev, fits=a["fits"], axis=kax, name=a["name"], correlation=a["corr"], relative=rel)
                        mk = lambda: RefSource(a["name"], rax, "simple", rel, err=evn, corr=a["corr"])
                    src = mk()
                    for j in J:
                        sims[j].ref.sources.append((mk(), "data"))
                        sims[j].names.append(a["name"])
                        sims[j].src_where.append("data")
                    if axis == "x":
                        res.probe("shared_x_source_added")
                    shared.append((src, J))
                    after = "add_shared"
                    res.probe("shared_source_added")
                elif k == "toggle_shared":
                    hit = [(src, J) for src, J in shared if src.name == a["name"]]
                    if not hit:
                        continue
                    src, J = hit[0]
                    if a["enable"]:
                        if src.enabled:
                            continue
                        for j in J:
                            sims[j].fit.enable_error(a["name"])  # (MultiFit offers disable_error only; enabling goes through the members)
                    else:
                        if not src.enabled:
                            continue
                        multi.disable_error(a["name"])
                    src.enabled = bool(a["enable"])
                    for j in J:
                        for s2, _ in sims[j].ref.sources:
                            if s2.name == a["name"]:
                                s2.enabled = bool(a["enable"])
                    after = "enable_shared@member" if a["enable"] else "disable_shared@multi"
                elif k == "constraint":
                    if a["at"] == "multi":
                        if a["par"] not in names:
                            continue
                        multi.add_parameter_constraint(a["par"], a["value"], a["unc"], relative=a["rel"])
                        multi_constraints.append(RefConstraint("simple", names.index(a["par"]), a["value"], unc=a["unc"], rel=a["rel"]))
                        after = "constraint@multi"
                    else:
                        i = a["fit"]
                        if i >= len(sims) or a["par"] not in sims[i].ref.par_names:
                            continue
                        sims[i].apply(["constraint", {"par": a["par"], "value": a["value"], "unc": a["unc"], "rel": a["rel"]}])
                        after = "constraint@member"
                elif k == "do_fit":
                    if member_fix_used:
                        continue  # (which parameters the multi-fit floats is then unspecified)
                    free = len(names) - len(fixed)
                    nd = sum(len(s.ref.d) for s in sims)
                    if free < 1 or nd < free + 2 or not in_domain():
                        continue
                    held = {} if member_set_used else {nm: pvals()[names.index(nm)] for nm in sorted(fixed_multi) if nm not in pre_limited}
                    try:
                        multi.do_fit()
                    except Exception as e:
                        res.discard = "do_fit_raised_" + type(e).__name__
                        return
                    if not np.all(np.isfinite(pvals())) or not in_domain():
                        res.discard = "fit-left-domain"
                        return
                    for nm, v in held.items():
                        # a parameter fixed through the multi-fit is not varied by do_fit, whatever was added to the multi-fit between the fix and the fit
                        # (not judged: parameters fixed in a member before the multi-fit was built, parameters with member-level limits)
                        if pvals()[names.index(nm)] != v:
                            viol("C11", "fixed-moved", "multi.parameter_values", "parameter %s is fixed at %r; MultiFit.do_fit moved it to %r" % (nm, v, pvals()[names.index(nm)]), step)
                    if held:
                        res.probe("fixed_parameters_checked_after_multi_do_fit")
                    fitted = True
                    stale_results = False
                    after = "do_fit@multi"
                    res.bump("op_do_fit")
                    self.check_blocks(multi, sims, names, step, res)
                    if solo is not None and n_mut == 0:
                        self.check_single(multi, sims[0], solo, step, res)
                elif k == "read":
                    what = a
                    if not in_domain():
                        continue
                    if what == "cost":
                        check_invariants(step, "read")
                    elif what == "member_cost":
                        i = op[2] % len(sims)
                        float(sims[i].fit.cost_function_value)
                        check_invariants(step, "member-read")
                    elif what in ("ndf", "chi2p") and member_fix_used:
                        continue
                    elif what == "ndf":
                        got = multi.ndf
                        exp = expected_ndf()
                        if got is None or int(got) != exp:
                            tags = []
                            if multi_constraints:
                                tags.append("multi-level-constraint")
                            if any(s.ref.constraints for s in sims):
                                tags.append("member-constraint")
                            viol("C10", "count", "multi.ndf", "MultiFit.ndf is %r; data points %d + constraint measurements %d - distinct parameters %d + fixed %d = %d" % (
                                got, sum(len(s.ref.d) for s in sims), exp - sum(len(s.ref.d) for s in sims) + len(names) - len(fixed), len(names), len(fixed), exp), step,
                                expected=exp, actual=got, extra={"tags": tags})
                        res.bump("read_ndf")
                    elif what == "chi2p":
                        allchi = all(s.ref.effective_cost_id().startswith("chi2") for s in sims)
                        got = multi.chi2_probability
                        if not allchi:
                            continue
                        exp_ndf = expected_ndf()
                        if exp_ndf <= 0:
                            continue
                        c = joint_cost(with_det=False) if shared else None
                        if shared and c is None:
                            continue
                        if c is None:
                            p = pvals()
                            c = 0.0
                            for s in sims:
                                sub = [p[names.index(nm)] for nm in s.ref.par_names]
                                c += s.ref.cost(sub, with_det=False)
                            c += sum(kc.cost(np.asarray(p)) for kc in multi_constraints)
                        exp = float(chi2_dist.sf(c, exp_ndf))
                        if got is None or not abs(got - exp) <= 1e-7 + 1e-6 * exp:
                            tags = []
                            if multi_constraints or any(s.ref.constraints for s in sims):
                                tags.append("with-constraints")
                            viol("C10", "closed-form", "multi.chi2_probability", "MultiFit.chi2_probability is %r, chi2.sf(cost without determinant terms = %.10g, ndf = %d) = %.10g" % (
                                got, c, exp_ndf, exp), step, expected=exp, actual=got, extra={"tags": tags})
                        res.bump("read_chi2p")
                    elif what == "gof":
                        got = multi.goodness_of_fit
                        p = pvals()
                        if any(s.spec["type"] == "unbinned" for s in sims):
                            if got is not None:
                                viol("C10", "closed-form", "multi.goodness_of_fit", "goodness_of_fit is %r although an unbinned member has no saturated model" % (got,), step)
                            continue
                        if shared:
                            # residuals of the Gaussian members against the joint covariance (saturated model: residual 0), constraints of every level,
                            # plus cost minus saturated cost of the other members
                            exp = joint_cost(with_det=False, gof=True)
                            if exp is None:
                                continue
                        else:
                            exp = 0.0
                            for s in sims:
                                sub = [p[names.index(nm)] for nm in s.ref.par_names]
                                exp += s.ref.gof(sub)
                            exp += sum(kc.cost(np.asarray(p)) for kc in multi_constraints)
                        if got is None or not abs(got - exp) <= (1e-6 if (shared and x_involved()) else 1e-8) * (abs(exp) + 1.0):
                            tags = ["multi-level-constraint"] if multi_constraints else []
                            viol("C10", "closed-form", "multi.goodness_of_fit", "MultiFit.goodness_of_fit is %r, cost minus saturated cost (determinant excluded, constraints included) is %.12g" % (
                                got, exp), step, expected=exp, actual=got, extra={"tags": tags})
                        res.bump("read_gof")
                    elif what == "blocks" and fitted and not stale_results:
                        self.check_blocks(multi, sims, names, step, res)
                    continue
                else:
                    continue
            except NotApplicable:
                continue
            if k != "do_fit":
                stale_results = True
            n_mut += 1
            res.bump("op_" + after.replace("@", "_at_"))
            check_invariants(step, after)
            res.states.add(h64(after, len(shared), bool(fitted), tuple(sorted(fixed)), tuple(bool(getattr(multi._nexus._nodes[nn], "_stale", False)) for nn in sorted(multi._nexus._nodes))))
        res.n_ops = len(ops)
        res.nontrivial = n_mut >= 2

    def check_blocks(self, multi, sims, names, step, res):
        mp = np.asarray(multi.parameter_values, dtype=float)
        me = np.asarray(multi.parameter_errors, dtype=float)
        mcov = multi.parameter_cov_mat
        mcor = multi.parameter_cor_mat
        for i, s in enumerate(sims):
            idx = [names.index(nm) for nm in s.ref.par_names]
            for what, sub, got in (("parameter_values", mp[idx], s.fit.parameter_values), ("parameter_errors", me[idx], s.fit.parameter_errors),
                                   ("parameter_cov_mat", None if mcov is None else np.asarray(mcov)[idx][:, idx], s.fit.parameter_cov_mat),
                                   ("parameter_cor_mat", None if mcor is None else np.asarray(mcor)[idx][:, idx], s.fit.parameter_cor_mat)):
                if sub is None or got is None:
                    if not (sub is None and got is None):
                        raise Violation("C11", "blocks", what, "after the multi-fit member %d reports %s %s, the multi-fit sub-block is %s" % (
                            i, what, "None" if got is None else "a value", "None" if sub is None else "a value"), step=step)
                    continue
                g = np.asarray(got, dtype=float)
                if g.shape != sub.shape or not np.array_equal(g, sub, equal_nan=True):
                    raise Violation("C11", "blocks", what, "after the multi-fit member %d reports %s = %s, the sub-block of the multi-fit result is %s" % (i, what, g.tolist(), sub.tolist()),
                                    step=step, expected=sub, actual=g)
            if not s.fit.did_fit:
                raise Violation("C11", "blocks", "did_fit", "after the multi-fit member %d reports did_fit False" % i, step=step)
        res.bump("invariant_I4_blocks")

    def check_single(self, multi, sim, solo, step, res):
        """I3: the multi-fit of one fit vs the same fit on its own (same sources were added through the multi-fit / member before do_fit)."""
        try:
            for (src, ref), nm in zip(sim.ref.sources, sim.names):
                kw = dict(err_val=(src.err.tolist()), name=nm, correlation=src.corr, relative=src.relative)
                solo.fit.add_error("y", **kw) if solo.spec["type"] == "xy" else solo.fit.add_error(**kw)
            for c in sim.ref.constraints:
                solo.fit.add_parameter_constraint(sim.ref.par_names[c.idx], c.values, c.unc, relative=c.rel)
            solo.fit.do_fit()
        except Exception:
            return
        a = np.asarray(multi.parameter_values, dtype=float)
        b = np.asarray(solo.fit.parameter_values, dtype=float)
        for i, nm in enumerate(sim.ref.par_names):
            if nm == "sigma":  # densities are even in sigma: +sigma and -sigma are the same optimum
                a[i], b[i] = abs(a[i]), abs(b[i])
        sig = np.asarray(solo.fit.parameter_errors, dtype=float)
        if a.shape != b.shape or np.any(np.abs(a - b) > 0.05 * np.where(sig > 0, sig, np.inf) + 1e-6 * (np.abs(b) + 1e-3)):
            raise Violation("C11", "single", "parameter_values", "a multi-fit of one fit gives %s, the fit on its own %s (sigma %s)" % (a.tolist(), b.tolist(), sig.tolist()), step=step)
        ca, cb = float(multi.cost_function_value), float(solo.fit.cost_function_value)
        if abs(ca - cb) > 2e-3 + 1e-6 * abs(cb):
            raise Violation("C11", "single", "cost", "a multi-fit of one fit reaches cost %.10g, the fit on its own %.10g" % (ca, cb), step=step)
        ea = np.asarray(multi.parameter_errors, dtype=float)
        if np.any(np.abs(ea - sig) > 0.05 * sig + 1e-9):
            raise Violation("C11", "single", "parameter_errors", "a multi-fit of one fit reports uncertainties %s, the fit on its own %s" % (ea.tolist(), sig.tolist()), step=step)
        res.bump("invariant_I3_single")

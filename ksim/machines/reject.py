"""M-REJECT (C19): a malformed specification is an injected fault (F1) at an arbitrary point of a valid history.

Oracle (a) the malformed call raises an exception where it is given;
       (b) lock-step twin: a second object executes the same history WITHOUT the faults and with the same reads at the
           same positions; every subsequent read agrees.  Stale-cache effects of C02-C04 occur on both sides and cancel.
Regimes: enumerated - for a seeded base history of length <= 8 every applicable catalogue kind is inserted at EVERY
         position, one fault per derived history (kinds x positions exhaustive per base history; base histories sampled);
         sampled    - longer histories with 1-3 faults at seeded positions.
Catalogue R1 wrong size, R2 negative entry, R3 correlation outside [0,1], R4 non-unit correlation diagonal, R5 bad constraint
matrix / length mismatch, R6 unknown parameter / source name, R7 reserved model argument, R8 Poisson with negative / non-integer
data, R9 unsorted edges / wrong set_bins length, R10 cycle-closing dependency / duplicate node name.
"""
import importlib

import numpy as np

from .. import fitlib, userlib
from ..core import Machine, Streams, Violation, h64
from ..fitlib import FitSim, NotApplicable
from .fithist import equalish, read_obs

PROP = "C19"
nx = importlib.import_module("kafe2.core.fitters.nexus")

HOSTS = ("fit", "cont", "fit", "hist", "nexus", "multi", "cont", "fit")
FIT_READS = ("cost_function_value", "total_error", "total_cov_mat", "model", "data", "ndf", "parameter_values", "data_error", "goodness_of_fit", "result_dict")


# ------------------------------------------------------------------------------------------------ fault catalogue


def fit_faults(spec):
    """All catalogue kinds applicable to a fit host: list of (kind, payload)."""
    n = fitlib.size_of(spec)
    t = spec["type"]
    names = fitlib.par_names(spec)
    ax = "y" if t == "xy" else None
    out = []
    if t != "unbinned":
        for dn in (-1, 1, 3):
            if n + dn >= 1:
                out.append(("R1", {"call": "add_error", "axis": ax, "err": [0.1] * (n + dn), "via": "fit"}))
                out.append(("R1", {"call": "add_error", "axis": ax, "err": [0.1] * (n + dn), "via": "container"}))
        out.append(("R1", {"call": "add_matrix_error", "axis": ax, "mat": (np.eye(n + 1) * 0.04).tolist(), "mtype": "cov"}))
        out.append(("R1", {"call": "add_matrix_error", "axis": ax, "mat": np.eye(n).tolist(), "mtype": "cor", "err": [0.1] * (n + 1)}))
        if t == "xy":
            out.append(("R1", {"call": "add_error", "axis": "x", "err": [0.1] * (n + 1), "via": "fit"}))
        if n >= 2:
            out.append(("R1", {"call": "add_error", "axis": ax, "err": [0.1], "via": "fit", "rel": True}))  # length-1 vector is not a scalar
            out.append(("R1", {"call": "add_error", "axis": ax, "err": [0.1], "via": "container"}))
        out.append(("R2", {"call": "add_error", "axis": ax, "err": [0.1] * (n - 1) + [-0.1], "via": "fit"}))
        out.append(("R2", {"call": "add_error", "axis": ax, "err": -0.2, "via": "container"}))
        out.append(("R3", {"call": "add_error", "axis": ax, "err": 0.1, "corr": 1.5, "via": "fit"}))
        out.append(("R3", {"call": "add_error", "axis": ax, "err": 0.1, "corr": -0.1, "via": "fit"}))
        # "any negative entry, any out-of-range coefficient": also by an amount below the usual comparison tolerances
        out.append(("R2", {"call": "add_error", "axis": ax, "err": [0.1] * (n - 1) + [-1e-12], "via": "fit"}))
        out.append(("R2", {"call": "add_error", "axis": ax, "err": -1e-12, "via": "container"}))
        out.append(("R3", {"call": "add_error", "axis": ax, "err": 0.1, "corr": 1.0 + 1e-9, "via": "fit"}))
        out.append(("R3", {"call": "add_error", "axis": ax, "err": 0.1, "corr": -1e-12, "via": "fit"}))
        M = np.eye(n)
        M[0, 0] = 0.9
        out.append(("R4", {"call": "add_matrix_error", "axis": ax, "mat": M.tolist(), "mtype": "cor", "err": [0.1] * n}))
        out.append(("R6", {"call": "disable_error", "name": "no_such_source"}))
        out.append(("R6", {"call": "enable_error", "name": "no_such_source"}))
    if len(names) >= 2:
        out.append(("R5", {"call": "mconstraint", "pars": names[:2], "values": [1.0, 1.0], "mat": [[1.0, 0.2], [0.3, 1.0]], "mtype": "cov"}))
        out.append(("R5", {"call": "mconstraint", "pars": names[:2], "values": [1.0, 1.0], "mat": [[1e-10, 5e-11], [-5e-11, 1e-10]], "mtype": "cov"}))  # tiny scale
        out.append(("R5", {"call": "mconstraint", "pars": names[:2], "values": [1.0, 1.0], "mat": [[1.0, 0.2], [0.2000001, 1.0]], "mtype": "cov"}))  # small asymmetry
        out.append(("R5", {"call": "mconstraint", "pars": names[:2], "values": [1.0, 1.0], "mat": [[1.0, 0.2, 0.0], [0.2, 1.0, 0.0], [0.0, 0.0, 1.0]], "mtype": "cov"}))
        out.append(("R5", {"call": "mconstraint", "pars": names[:2], "values": [1.0], "mat": [[1.0, 0.2], [0.2, 1.0]], "mtype": "cov"}))
        out.append(("R4", {"call": "mconstraint", "pars": names[:2], "values": [1.0, 1.0], "mat": [[0.9, 0.2], [0.2, 1.0]], "mtype": "cor", "unc": [0.1, 0.1]}))
    out.append(("R6", {"call": "set", "name": "zzz"}))
    out.append(("R6", {"call": "set_multi", "name": "zzz", "valid": names[0]}))  # valid keyword first: partial application before the rejection
    if len(names) >= 2:
        out.append(("R6", {"call": "set_multi", "name": "zzz", "valid": names[-1]}))
    out.append(("R6", {"call": "fix", "name": "zzz"}))
    out.append(("R6", {"call": "fix_value", "name": "zzz"}))
    out.append(("R6", {"call": "limit", "name": "zzz"}))
    out.append(("R6", {"call": "constraint", "name": "zzz"}))
    out.append(("R6", {"call": "mconstraint_name", "name": "zzz", "other": names[0]}))
    out.append(("R1", {"call": "set_all", "n": len(names) + 1}))
    if spec["cost"] in ("nll", "nllr", "nll_poisson", "nllr_poisson", "poisson") and t in ("xy", "indexed"):
        out.append(("R8", {"call": "set_data", "how": "negative"}))
        out.append(("R8", {"call": "set_data", "how": "noninteger"}))
        out.append(("R8", {"call": "set_data", "how": "negative_other_size"}))  # rejected data of another size: nothing built for them may stay
    if spec["cost"] in ("nll", "nllr", "nll_poisson", "nllr_poisson", "poisson") and t == "hist":
        out.append(("R8", {"call": "set_data", "how": "hist_noninteger_other_binning"}))
    return out


def do_fit_fault(sim, kind, f):
    """Issue the malformed call on a fit.  Returns normally iff kafe2 accepted it."""
    fit = sim.fit
    spec = sim.spec
    t = spec["type"]
    c = f["call"]
    if c == "add_error":
        kw = dict(err_val=f["err"], correlation=f.get("corr", 0.0), relative=f.get("rel", False))
        tgt = fit.data_container if f.get("via") == "container" else fit
        return tgt.add_error(f["axis"], **kw) if t == "xy" else tgt.add_error(**kw)
    if c == "add_matrix_error":
        kw = dict(err_matrix=np.array(f["mat"]), matrix_type=f["mtype"], err_val=(None if f.get("err") is None else np.array(f["err"])))
        return fit.add_matrix_error(f["axis"], **kw) if t == "xy" else fit.add_matrix_error(**kw)
    if c == "disable_error":
        return fit.disable_error(f["name"])
    if c == "enable_error":
        return fit.enable_error(f["name"])
    if c == "mconstraint":
        return fit.add_matrix_parameter_constraint(list(f["pars"]), list(f["values"]), np.array(f["mat"]), matrix_type=f["mtype"], uncertainties=f.get("unc"))
    if c == "mconstraint_name":
        return fit.add_matrix_parameter_constraint([f["other"], f["name"]], [1.0, 1.0], np.eye(2))
    if c == "set":
        return fit.set_parameter_values(**{f["name"]: 1.0})
    if c == "set_multi":
        cur = float(fit.parameter_values[sim.ref.par_names.index(f["valid"])])
        d = {f["valid"]: cur + 0.75}
        d[f["name"]] = 1.0
        return fit.set_parameter_values(**d)
    if c == "set_all":
        return fit.set_all_parameter_values([1.0] * f["n"])
    if c == "fix":
        return fit.fix_parameter(f["name"])
    if c == "fix_value":
        return fit.fix_parameter(f["name"], 1.0)
    if c == "limit":
        return fit.limit_parameter(f["name"], 0.0, 1.0)
    if c == "constraint":
        return fit.add_parameter_constraint(f["name"], 1.0, 0.1)
    if c == "set_data":
        if t == "hist":
            K = fitlib.kf()
            e = [float(v) for v in spec["edges"]]
            c2 = K.HistContainer(bin_edges=[e[0] - 1.0] + e[1:] + [e[-1] + 1.0])  # other outer edges and one more bin
            c2.set_bins([1.5] + [2.0] * (len(e) - 1))
            fit.data = c2
            return None
        if t == "xy":
            y = list(spec["y"])
            x = list(spec["x"])
            y[0] = y[0] + 0.5 if f["how"] == "noninteger" else -1.0
            if f["how"] == "negative_other_size":
                x, y = x + [x[-1] + 1.0], y + [3.0]
            fit.data = [x, y]
        else:
            d = list(spec["d"])
            d[0] = d[0] + 0.5 if f["how"] == "noninteger" else -1.0
            if f["how"] == "negative_other_size":
                d = d + [3.0]
            fit.data = d
        return None
    raise NotApplicable(c)


class RejectMachine(Machine):
    name = "reject"
    properties = (PROP,)

    # ------------------------------------------------------------------ generation
    def generate(self, seed, tier, idx):
        st = Streams(seed)
        sw = st("swarm")
        rng = st("ops")
        host = HOSTS[idx % len(HOSTS)]
        enumerate_ = (idx // len(HOSTS)) % 2 == 0
        nbase = sw.randint(3, 8) if enumerate_ else sw.randint(8, 16 if tier == "quick" else 30)
        if host == "fit":
            ops = self._gen_fit(rng, sw, nbase, allow_fit=not enumerate_)
        elif host == "cont":
            ops = self._gen_cont(rng, sw, nbase)
        elif host == "hist":
            ops = self._gen_hist(rng, sw, nbase)
        elif host == "multi":
            ops = self._gen_multi(rng, sw, min(nbase, 8))
        else:
            ops = self._gen_nexus(rng, sw, nbase)
        knobs = {"host": host, "enumerate": enumerate_, "order": sw.choice(["shuffle", "insertion"])}
        if not enumerate_:
            # sampled regime: 1-3 faults at seeded positions (biased to directly after a mutator / a read)
            cat = self.catalogue(host, ops)
            if cat:
                for _ in range(sw.randint(1, 3)):
                    pos = rng.randint(1, len(ops))
                    kf = rng.choice(cat)
                    ops.insert(pos, ["fault", kf[0], kf[1]])
        return {"machine": self.name, "seed": seed, "knobs": knobs, "ops": ops}

    def _gen_fit(self, rng, sw, n, allow_fit=True):
        t = rng.choice(["xy", "indexed", "hist", "unbinned", "xy", "indexed"])
        spec = fitlib.gen_new(rng, t, nmax=6)
        ops = [["new", spec, []]]
        nsrc = 0
        names = fitlib.par_names(spec)
        if t != "unbinned":
            op = fitlib.gen_source(rng, spec, nsrc, force={"kind": "simple", "axis": "y" if t == "xy" else None, "ref": "data", "rel": False})
            op[1]["name"] = "s0"
            op[1]["corr"] = 0.0
            ops.append(op)
            nsrc += 1
        for _ in range(n):
            r = rng.random()
            if r < 0.2 and t != "unbinned" and nsrc < 5:
                op = fitlib.gen_source(rng, spec, nsrc)
                if t == "hist" and op[1]["ref"] == "model":
                    op[1]["rel"] = False
                ops.append(op)
                nsrc += 1
            elif r < 0.3 and nsrc > 1:
                i = rng.randrange(1, nsrc)
                ops.append(["disable", i])
                ops.append(["enable", i])
            elif r < 0.4:
                ops.append(fitlib.gen_constraint(rng, spec))
            elif r < 0.55:
                ops.append(["set_all", fitlib.gen_point(rng, spec, 0.2)])
            elif r < 0.62:
                nm = rng.choice(names)
                ops.append(["fix", [nm, None]])
            elif r < 0.66:
                ops.append(["release", rng.choice(names)])
            else:
                ops.append(["read", rng.choice(FIT_READS)])
        if t != "unbinned":
            # every history ends with a valid uncertainty change followed by reads: a rejected call anywhere before it must not have cut the fit
            # off from its containers (the total uncertainty is read even where the cost function does not use it, e.g. Poisson likelihoods)
            op = fitlib.gen_source(rng, spec, nsrc, force={"kind": "simple", "axis": "y" if t == "xy" else None, "ref": "data", "rel": False})
            op[1]["name"] = "s_late"
            op[1]["corr"] = 0.0
            ops.append(op)
            ops.append(["read", "total_error"])
        ops.append(["read", "cost_function_value"])
        ops.append(["read", "result_dict"])
        if allow_fit and sw.random() < 0.4:
            ops.append(["do_fit"])
            ops.append(["read", "parameter_values"])
        return ops

    def _gen_cont(self, rng, sw, n):
        kind = rng.choice(["indexed", "xy"])
        size = rng.randint(1, 5)
        new = {"kind": kind, "n": size, "data": [float(rng.choice([1.0, 2.0, 3.5, 0.5, 5.0])) for _ in range(size)],
               "x": [float(i + 1) for i in range(size)]}
        ops = [["new", new]]
        nsrc = 0
        for _ in range(n):
            r = rng.random()
            ax = rng.choice(["x", "y", 0, 1]) if kind == "xy" else None
            if r < 0.3 and nsrc < 5:
                ops.append(["add_simple", "e%d" % nsrc, ax, rng.choice([0.1, 0.2, [0.1] * size]), rng.choice([0.0, 0.5, 1.0]), rng.random() < 0.3])
                nsrc += 1
            elif r < 0.4 and nsrc:
                i = rng.randrange(nsrc)
                ops.append(["disable", i])
                ops.append(["enable", i])
            elif r < 0.5:
                ops.append(["set_data", [float(rng.choice([1.0, 2.0, 3.5, 0.5, 5.0])) for _ in range(size)]])
            else:
                ops.append(["read", rng.choice(["err", "cov", "cor"]), rng.choice([0, 1]) if kind == "xy" else 0])
        ops.append(["read", "cov", 0])
        if kind == "xy":
            ops.append(["read", "cov", 1])
        return ops

    def _gen_multi(self, rng, sw, n):
        """A MultiFit of two Gaussian members (xy / indexed) and valid operations issued on it."""
        from .multi import _member_spec

        members = [_member_spec(rng, rng.choice(["xy", "indexed"])) for _ in range(2)]
        ops = [["new", {"type": "multi", "members": members}]]
        for i, sp in enumerate(members):
            ops.append(["add_error", {"fits": i, "axis": "y" if sp["type"] == "xy" else None, "err": rng.choice([0.2, 0.3, 0.5]), "corr": rng.choice([0.0, 0.3]), "name": "b%d" % i}])
        allnames = []
        for sp in members:
            for nm in fitlib.par_names(sp):
                if nm not in allnames:
                    allnames.append(nm)
        same_size = fitlib.size_of(members[0]) == fitlib.size_of(members[1])
        nsh = 0
        for _ in range(n):
            r = rng.random()
            nm = rng.choice(allnames)
            if r < 0.2:
                ops.append(["set", {nm: round(1.0 + rng.random(), 3)}])
            elif r < 0.3:
                ops.append(["fix", [nm, None if rng.random() < 0.5 else round(1.0 + rng.random(), 3)]])
            elif r < 0.36:
                ops.append(["release", nm])
            elif r < 0.46 and same_size and nsh < 2:
                ops.append(["add_shared", {"err": rng.choice([0.1, 0.2]), "corr": rng.choice([0.0, 0.5]), "name": "sh%d" % nsh}])
                nsh += 1
            elif r < 0.54:
                ops.append(["constraint", {"par": nm, "value": round(1.0 + rng.random(), 3), "unc": rng.choice([0.2, 0.5])}])
            else:
                ops.append(["read", rng.choice(["cost", "ndf", "pvals", "member_cost", "member_pvals", "gof"]), rng.randrange(2)])
        ops.append(["read", "cost", 0])
        ops.append(["read", "ndf", 0])
        ops.append(["read", "member_cost", 1])
        return ops

    def _gen_hist(self, rng, sw, n):
        nb = rng.randint(1, 5)
        edges = [float(i) for i in range(nb + 1)]
        ops = [["new", {"kind": "hist", "edges": edges}]]
        for _ in range(n):
            r = rng.random()
            if r < 0.4:
                ops.append(["fill", [float(rng.choice(range(-1, nb + 1))) + 0.5 for _ in range(rng.randint(1, 4))]])
            elif r < 0.5:
                ops.append(["rebin", [float(i) + 0.25 for i in range(nb + 1)]])
            elif r < 0.6:
                ops.append(["add_simple", None, None, 0.5, 0.0, rng.random() < 0.3])
            else:
                ops.append(["read", rng.choice(["data", "underflow", "overflow", "n_entries", "err"]), 0])
        ops.append(["read", "data", 0])
        ops.append(["read", "n_entries", 0])
        return ops

    def _gen_nexus(self, rng, sw, n):
        ops = [["new", {"kind": "nexus"}]]
        nid = 0
        kinds = {}
        for _ in range(3):
            ops.append(["param", nid, float(rng.randint(-3, 3))])
            kinds[nid] = "P"
            nid += 1
        for _ in range(n):
            r = rng.random()
            if r < 0.35:
                a, b = rng.choice(list(kinds)), rng.choice(list(kinds))
                ops.append(["func", nid, rng.choice(["add", "mul"]), [a, b]])
                kinds[nid] = "F"
                nid += 1
            elif r < 0.55:
                ps = [k for k, v in kinds.items() if v == "P"]
                ops.append(["set", rng.choice(ps), float(rng.randint(-3, 3))])
            elif r < 0.65:
                fs = [k for k, v in kinds.items() if v == "F"]
                if fs:
                    ops.append(["dep", rng.choice(fs), rng.choice(list(kinds))])
            else:
                ops.append(["read", rng.choice(list(kinds))])
        for k in kinds:
            ops.append(["read", k])
        ops.append(["value_dict"])
        return ops

    def catalogue(self, host, ops):
        new = ops[0][1]
        if host == "fit":
            return fit_faults(new)
        if host == "cont":
            n = new["n"]
            xy = new["kind"] == "xy"
            ax = "y" if xy else None
            out = []
            for dn in (-1, 1, 2):
                if n + dn >= 1:
                    out.append(("R1", {"call": "add_error", "axis": ax, "err": [0.1] * (n + dn)}))
            out.append(("R1", {"call": "add_matrix_error", "axis": ax, "mat": (np.eye(n + 1) * 0.1).tolist(), "mtype": "cov"}))
            out.append(("R1", {"call": "add_matrix_error", "axis": ax, "mat": np.eye(n).tolist(), "mtype": "cor", "err": [0.1] * (n + 1)}))
            if n >= 2:
                out.append(("R1", {"call": "add_error", "axis": ax, "err": [0.1], "rel": True}))
            out.append(("R2", {"call": "add_error", "axis": ax, "err": [0.1] * (n - 1) + [-0.5]}))
            out.append(("R3", {"call": "add_error", "axis": ax, "err": 0.1, "corr": 1.01}))
            out.append(("R3", {"call": "add_error", "axis": ax, "err": 0.1, "corr": -0.5}))
            out.append(("R2", {"call": "add_error", "axis": ax, "err": [0.1] * (n - 1) + [-1e-12]}))
            out.append(("R3", {"call": "add_error", "axis": ax, "err": 0.1, "corr": 1.0 + 1e-9}))
            out.append(("R3", {"call": "add_error", "axis": ax, "err": 0.1, "corr": -1e-12}))
            M = np.eye(n)
            M[-1, -1] = 1.2
            out.append(("R4", {"call": "add_matrix_error", "axis": ax, "mat": M.tolist(), "mtype": "cor", "err": [0.1] * n}))
            out.append(("R6", {"call": "disable_error", "name": "nope"}))
            out.append(("R6", {"call": "enable_error", "name": "nope"}))
            out.append(("R6", {"call": "get_error", "name": "nope"}))
            if xy:
                out.append(("R6", {"call": "add_error", "axis": "z", "err": 0.1}))
            return out
        if host == "multi":
            ms = new["members"]
            names = []
            for sp in ms:
                for nm in fitlib.par_names(sp):
                    if nm not in names:
                        names.append(nm)
            n0, n1 = fitlib.size_of(ms[0]), fitlib.size_of(ms[1])
            ax0 = "y" if ms[0]["type"] == "xy" else None
            out = [("R6", {"call": "set", "name": "zzz"}), ("R6", {"call": "set_multi", "name": "zzz", "valid": names[0]}), ("R6", {"call": "set_multi", "name": "zzz", "valid": names[-1]}),
                   ("R6", {"call": "fix", "name": "zzz"}), ("R6", {"call": "fix_value", "name": "zzz"}), ("R6", {"call": "limit", "name": "zzz"}),
                   ("R6", {"call": "constraint", "name": "zzz"}), ("R6", {"call": "disable_error", "name": "no_such_source"}),
                   ("R1", {"call": "set_all", "n": len(names) + 1}),
                   ("R1", {"call": "add_error", "fits": 0, "axis": ax0, "err": [0.1] * (n0 + 1)}),
                   ("R1", {"call": "add_error", "fits": [0, 1], "axis": "y", "err": [0.1] * (n0 + 2)}),
                   ("R2", {"call": "add_error", "fits": 0, "axis": ax0, "err": -0.2}),
                   ("R2", {"call": "add_error", "fits": [0, 1], "axis": "y", "err": [0.1] * (n0 - 1) + [-0.1]}),
                   ("R3", {"call": "add_error", "fits": [0, 1], "axis": "y", "err": 0.1, "corr": 1.5}),
                   ("R3", {"call": "add_error", "fits": 0, "axis": ax0, "err": 0.1, "corr": -0.2}),
                   ("R1", {"call": "add_matrix_error", "fits": 0, "axis": ax0, "mat": (np.eye(n0 + 1) * 0.04).tolist()}),
                   ("R1", {"call": "add_matrix_error", "fits": [0, 1], "axis": "y", "mat": (np.eye(n0 + 1) * 0.04).tolist()}),
                   ("R6", {"call": "add_error", "fits": 7, "axis": ax0, "err": 0.1})]
            if n0 != n1:
                out.append(("R1", {"call": "add_error", "fits": [0, 1], "axis": "y", "err": 0.1}))  # members of different size cannot share a source
            if any(sp["type"] == "indexed" for sp in ms):
                out.append(("R6", {"call": "add_error", "fits": [0, 1], "axis": "x", "err": 0.1}))  # no x axis in an indexed member
            return out
        if host == "hist":
            nb = len(new["edges"]) - 1
            out = [("R9", {"call": "set_bins", "heights": [1] * (nb + 1)}), ("R9", {"call": "set_bins", "heights": [[1] * nb]}),
                   ("R1", {"call": "add_error", "axis": None, "err": [0.1] * (nb + 1)}), ("R2", {"call": "add_error", "axis": None, "err": -0.1})]
            if nb >= 2:
                out.append(("R9", {"call": "rebin", "edges": [float(i) for i in range(nb + 1)][::-1]}))
                e = [float(i) for i in range(nb + 1)]
                e[1], e[2] = e[2], e[1]
                out.append(("R9", {"call": "rebin", "edges": e}))
            out.append(("R9", {"call": "ctor", "edges": [2.0, 1.0, 3.0]}))
            return out
        return [("R10", {"call": "cycle"}), ("R10", {"call": "cycle_add"}), ("R10", {"call": "dup"}), ("R10", {"call": "self_dep"}), ("R10", {"call": "cycle_foreign"})]

    # ------------------------------------------------------------------ shrinking
    def simplify(self, op):
        return ()

    def case_tag(self, case):
        return case["knobs"].get("host", "?")

    def fingerprint(self, case, v):
        f = [op for op in case["ops"] if op[0] == "fault"]
        ftxt = ",".join("%s:%s" % (x[1], x[2].get("call")) for x in f[:3])
        new = case["ops"][0][1] if case["ops"] else {}
        return ";".join([v.get("oracle", "?"), v.get("observable", "?"), "host:%s" % case["knobs"].get("host"), "type:%s" % (new.get("type") or new.get("kind")), ftxt]
                        + list((v.get("extra") or {}).get("tags", [])))

    # ------------------------------------------------------------------ execution
    def execute(self, case, world, res, log):
        host = case["knobs"]["host"]
        ops = case["ops"]
        if not ops or ops[0][0] != "new":
            return
        if host == "fit":
            self.check_ctor(ops[0][1], res)
        if case["knobs"].get("enumerate") and not any(op[0] == "fault" for op in ops):
            cat = self.catalogue(host, ops)
            n_der = 0
            for pos in range(1, len(ops) + 1):
                for kf in cat:
                    der = ops[:pos] + [["fault", kf[0], kf[1]]] + ops[pos:]
                    try:
                        self.run_one(host, der, world, res, log)
                    except Violation as v:
                        dcase = dict(case)
                        dcase["ops"] = der
                        dcase["knobs"] = dict(case["knobs"])
                        dcase["knobs"]["enumerate"] = False
                        v.extra["derived_case"] = dcase
                        raise
                    n_der += 1
                    res.states.add(h64(host, kf[0], kf[1].get("call"), pos, len(ops)))
            res.bump("derived_histories", n_der)
            res.bump("enumerated_bases")
        else:
            self.run_one(host, ops, world, res, log)
            res.bump("sampled_histories")
            for pos, op in enumerate(ops):
                if op[0] == "fault":
                    res.states.add(h64(host, op[1], op[2].get("call"), pos, len(ops)))
        res.n_ops = len(ops)
        res.nontrivial = len(ops) >= 4

    def check_ctor(self, spec, res):
        """R7 / R8 at construction: only 'raises' is checkable."""
        K = fitlib.kf()

        def reserved(x, y_data=1.0, b=1.0):
            return y_data * x + b

        def reserved_idx(data=1.0, b=1.0):
            return np.array([data, b])

        def lin(x, a=1.0, b=1.0):
            return a * x + b

        trials = [("R7", {"call": "XYFit(reserved argument y_data)"}, lambda: K.XYFit([[1.0, 2.0], [1.0, 2.0]], reserved)),
                  ("R7", {"call": "IndexedFit(reserved argument data)"}, lambda: K.IndexedFit([1.0, 2.0], reserved_idx)),
                  ("R8", {"call": "XYFit(nll, negative y)"}, lambda: K.XYFit([[1.0, 2.0], [-1.0, 2.0]], lin, cost_function="nll")),
                  ("R8", {"call": "IndexedFit(nll, non-integer data)"}, lambda: K.IndexedFit([1.5, 2.0], lambda a=1.0, b=1.0: np.array([a, b]), cost_function="nll")),
                  ("R8", {"call": "HistFit(nllr) with non-integer bin heights"}, lambda: K.HistFit((np.array([1.5, 2.0]), np.array([0.0, 1.0, 2.0])), cost_function="nllr")),
                  ("R9", {"call": "HistContainer(unsorted edges)"}, lambda: K.HistContainer(bin_edges=[0.0, 2.0, 1.0]))]
        for kind, f, call in trials:
            self.reject(res, kind, f, call, 0)
        # R7 for EVERY reserved name of the fit class, the model function given as a plain function and as a model-function object
        t = spec["type"]
        cls = {"xy": K.XYFit, "indexed": K.IndexedFit, "hist": K.HistFit, "unbinned": K.UnbinnedFit}[t]
        wrap = {"xy": importlib.import_module("kafe2.fit._base").ModelFunctionBase, "indexed": importlib.import_module("kafe2.fit.indexed").IndexedModelFunction,
                "hist": importlib.import_module("kafe2.fit.histogram").HistModelFunction, "unbinned": importlib.import_module("kafe2.fit._base").ModelFunctionBase}[t]
        data = {"xy": lambda: [[1.0, 2.0, 3.0], [1.0, 2.0, 3.2]], "indexed": lambda: [1.0, 2.0, 3.0],
                "hist": lambda: K.HistContainer(3, (-1.0, 1.0), fill_data=[0.1, 0.2, -0.3, 0.5]), "unbinned": lambda: [0.1, 0.2, -0.3]}[t]
        for nm in sorted(cls.RESERVED_NODE_NAMES):
            if not nm.isidentifier():
                continue
            ns = {"np": np}
            if t == "xy":
                src = "def f(x, %s=1.0, b=1.0):\n    return %s * x + b\n" % (nm, nm)
            elif t == "indexed":
                src = "def f(%s=1.0, b=1.0):\n    return np.array([%s, b, %s + b])\n" % (nm, nm, nm)
            else:
                src = "def f(x, %s=0.1, b=1.0):\n    return np.exp(-0.5 * ((x - %s) / b) ** 2) / np.sqrt(2.0 * np.pi * b ** 2)\n" % (nm, nm)
            exec(src, ns)
            f = ns["f"]
            self.reject(res, "R7", {"call": "%s(model function with parameter %s)" % (cls.__name__, nm)}, lambda: cls(data(), f), 0)
            self.reject(res, "R7", {"call": "%s(model function OBJECT with parameter %s)" % (cls.__name__, nm)}, lambda: cls(data(), wrap(f)), 0)

    def run_one(self, host, ops, world, res, log):
        if host == "fit":
            return self.run_fit(ops, world, res, log)
        if host == "nexus":
            return self.run_nexus(ops, world, res, log)
        if host == "multi":
            return self.run_multi(ops, world, res, log)
        return self.run_cont(host, ops, world, res, log)

    def reject(self, res, kind, f, call, step):
        """Issue a malformed call; it must raise."""
        try:
            call()
        except NotApplicable:
            return False
        except RecursionError:
            raise Violation(PROP, "raises", "%s:%s" % (kind, f.get("call")), "malformed call %s %r ended in RecursionError instead of a rejection" % (kind, f), step=step)
        except Exception:
            res.bump("fault_F1_%s_rejected" % kind)
            res.bump("fault_F1_fired")
            return True
        raise Violation(PROP, "raises", "%s:%s" % (kind, f.get("call")), "malformed specification accepted without an exception: %s %s" % (kind, _short(f)), step=step)

    # -- multi-fit host
    def run_multi(self, ops, world, res, log):
        K = fitlib.kf()
        specs = ops[0][1]["members"]

        def build():
            sims = [FitSim(sp) for sp in specs]
            return sims, K.MultiFit([sm.fit for sm in sims])

        (msims, main), (tsims, twin) = build(), build()
        names = list(twin.parameter_names)

        def do_fault(f):
            c = f["call"]
            if c == "set":
                return main.set_parameter_values(**{f["name"]: 1.0})
            if c == "set_multi":
                if f["valid"] not in names:
                    raise NotApplicable("name")
                d = {f["valid"]: float(main.parameter_values[names.index(f["valid"])]) + 0.75}
                d[f["name"]] = 1.0
                return main.set_parameter_values(**d)
            if c == "set_all":
                return main.set_all_parameter_values([1.0] * f["n"])
            if c == "fix":
                return main.fix_parameter(f["name"])
            if c == "fix_value":
                return main.fix_parameter(f["name"], 1.0)
            if c == "limit":
                return main.limit_parameter(f["name"], 0.0, 1.0)
            if c == "constraint":
                return main.add_parameter_constraint(f["name"], 1.0, 0.1)
            if c == "disable_error":
                return main.disable_error(f["name"])
            if c == "add_error":
                return main.add_error(f["err"], fits=f["fits"], axis=f["axis"], correlation=f.get("corr", 0.0))
            if c == "add_matrix_error":
                return main.add_matrix_error(np.array(f["mat"]), "cov", fits=f["fits"], axis=f["axis"])
            raise NotApplicable(c)

        def read(mf, sims, what, i):
            try:
                if what == "cost":
                    return ("ok", float(mf.cost_function_value))
                if what == "ndf":
                    return ("ok", mf.ndf)
                if what == "gof":
                    g = mf.goodness_of_fit
                    return ("ok", None if g is None else float(g))
                if what == "pvals":
                    return ("ok", [float(v) for v in mf.parameter_values])
                if what == "member_cost":
                    return ("ok", float(sims[i % len(sims)].fit.cost_function_value))
                if what == "member_pvals":
                    return ("ok", [float(v) for v in sims[i % len(sims)].fit.parameter_values])
            except Exception as e:  # noqa
                return ("exc", type(e).__name__)
            raise NotApplicable(what)

        def apply(mf, sims, op):
            k, a = op[0], op[1]
            if k == "add_error":
                if a["name"] in sims[a["fits"]].names:
                    raise NotApplicable("dup")
                mf.add_error(a["err"], fits=a["fits"], axis=a["axis"], name=a["name"], correlation=a["corr"])
                sims[a["fits"]].names.append(a["name"])
            elif k == "add_shared":
                if len(sims[0].ref.d) != len(sims[1].ref.d) or a["name"] in sims[0].names:
                    raise NotApplicable("size")
                mf.add_error(a["err"], fits=[0, 1], axis=(None if all(sm.spec["type"] == "indexed" for sm in sims) else "y"), name=a["name"], correlation=a["corr"])
                for sm in sims:
                    sm.names.append(a["name"])
            elif k == "set":
                if any(nm not in names for nm in a):
                    raise NotApplicable("name")
                mf.set_parameter_values(**a)
            elif k == "fix":
                if a[0] not in names:
                    raise NotApplicable("name")
                mf.fix_parameter(a[0], a[1])
            elif k == "release":
                if a not in mf._fitter.fixed_parameters:
                    raise NotApplicable("not fixed")
                mf.release_parameter(a)
            elif k == "constraint":
                if a["par"] not in names:
                    raise NotApplicable("name")
                mf.add_parameter_constraint(a["par"], a["value"], a["unc"])
            else:
                raise NotApplicable(k)

        after_fault = False
        last_fault = None
        for step, op in enumerate(ops[1:], start=1):
            k = op[0]
            if k == "fault":
                if self.reject(res, op[1], op[2], lambda: do_fault(op[2]), step):
                    after_fault = True
                    last_fault = op
                continue
            if k == "read":
                a = read(main, msims, op[1], op[2])
                b = read(twin, tsims, op[1], op[2])
                if after_fault:
                    res.bump("reads_after_fault")
                    self.cmp(a, b, "multi." + op[1], step, last_fault, 1e-12, False)
                log.add(op, a[0])
                continue
            try:
                apply(twin, tsims, op)
            except NotApplicable:
                continue
            apply(main, msims, op)
        res.n_ops = len(ops)

    # -- fit host
    def run_fit(self, ops, world, res, log):
        new = ops[0]
        main = FitSim(new[1], pre_sources=new[2])
        twin = FitSim(new[1], pre_sources=new[2])
        after_fault = False
        fitted = False
        last_fault = None
        for step, op in enumerate(ops[1:], start=1):
            k = op[0]
            if k == "fault":
                if self.reject(res, op[1], op[2], lambda: do_fit_fault(main, op[1], op[2]), step):
                    after_fault = True
                    last_fault = op
                continue
            if k == "read":
                pcur = [float(v) for v in twin.fit.parameter_values]
                if twin.domain_ok(pcur) and op[1] not in ("data", "ndf", "parameter_values", "model"):
                    continue
                a = read_obs(main.fit, op[1])
                b = read_obs(twin.fit, op[1])
                if after_fault:
                    res.bump("reads_after_fault")
                    self.cmp(a, b, op[1], step, last_fault, 0.05 if fitted else 1e-12, fitted)
                log.add(op, a[0])
                continue
            if k == "do_fit":
                free = twin.ref.n_par - len(twin.ref.fixed)
                p0 = [float(v) for v in twin.fit.parameter_values]
                if free < 1 or len(twin.ref.d) < free + 1 or twin.domain_ok(p0):
                    continue
                try:
                    twin.fit.do_fit()
                except Exception:
                    return
                main.fit.do_fit()
                fitted = True
                continue
            try:
                twin.apply(op)
            except NotApplicable:
                continue
            main.apply(op)

    def cmp(self, a, b, name, step, fault, rtol, fitted):
        tags = []
        if a[0] != b[0] or (a[0] == "exc" and a[1] != b[1]):
            raise Violation(PROP, "unchanged", name, "after the rejected call %s, %s %s; on the twin that never received the call it %s" % (
                _short(fault), name, _desc(a), _desc(b)), step=step, extra={"tags": tags})
        if a[0] == "exc":
            return
        if fitted and name == "result_dict":
            a = ("ok", {k: a[1][k] for k in ("did_fit", "ndf")})
            b = ("ok", {k: b[1][k] for k in ("did_fit", "ndf")})
        ok, detail = equalish(a[1], b[1], rtol)
        if not ok:
            raise Violation(PROP, "unchanged", name, "after the rejected call %s, %s differs from the twin that never received the call: %s" % (_short(fault), name, detail),
                            step=step, extra={"tags": tags})

    # -- container / histogram host
    def run_cont(self, host, ops, world, res, log):
        K = fitlib.kf()
        new = ops[0][1]

        def mk():
            if new["kind"] == "indexed":
                return K.IndexedContainer(list(new["data"]))
            if new["kind"] == "xy":
                return K.XYContainer(list(new["x"]), list(new["data"]))
            return K.HistContainer(bin_edges=list(new["edges"]))

        main, twin = mk(), mk()
        names = []
        xy = new["kind"] == "xy"
        after_fault = False
        last_fault = None
        manual = False
        for step, op in enumerate(ops[1:], start=1):
            k = op[0]
            if k == "fault":
                f = op[2]
                c = f["call"]

                def call():
                    if c == "add_error":
                        kw = dict(err_val=f["err"], correlation=f.get("corr", 0.0), relative=f.get("rel", False))
                        return main.add_error(f["axis"], **kw) if xy else main.add_error(**kw)
                    if c == "add_matrix_error":
                        kw = dict(err_matrix=np.array(f["mat"]), matrix_type=f["mtype"], err_val=(None if f.get("err") is None else np.array(f["err"])))
                        return main.add_matrix_error(f["axis"], **kw) if xy else main.add_matrix_error(**kw)
                    if c in ("disable_error", "enable_error", "get_error"):
                        return getattr(main, c)(f["name"])
                    if c == "set_bins":
                        return main.set_bins(f["heights"])
                    if c == "rebin":
                        return main.rebin(list(f["edges"]))
                    if c == "ctor":
                        return K.HistContainer(bin_edges=list(f["edges"]))
                    raise NotApplicable(c)

                if self.reject(res, op[1], f, call, step):
                    after_fault = True
                    last_fault = op
                continue
            if k == "add_simple":
                if manual and new["kind"] == "hist":
                    pass
                kw = dict(err_val=op[3], name=op[1], correlation=op[4], relative=op[5])
                for o in (twin, main):
                    rn = o.add_error(op[2], **kw) if xy else o.add_error(**kw)
                names.append(rn if op[1] is None else op[1])
                if op[1] is None:
                    # unnamed sources get different random names on the two objects; address them by index via the dict order
                    names[-1] = None
            elif k in ("disable", "enable"):
                if op[1] >= len(names) or names[op[1]] is None:
                    continue
                for o in (twin, main):
                    getattr(o, k + "_error")(names[op[1]])
            elif k == "set_data":
                if new["kind"] == "indexed":
                    for o in (twin, main):
                        o.data = list(op[1])
                elif xy:
                    for o in (twin, main):
                        o.y = list(op[1])
            elif k == "fill":
                for o in (twin, main):
                    o.fill(list(op[1]))
            elif k == "rebin":
                for o in (twin, main):
                    o.rebin(list(op[1]))
            elif k == "read":
                what = op[1]
                vals = []
                for o in (main, twin):
                    try:
                        if what in ("err", "cov", "cor"):
                            pre = ("xy"[op[2]] + "_") if xy else ""
                            v = getattr(o, pre + {"err": "err", "cov": "cov_mat", "cor": "cor_mat"}[what])
                        else:
                            v = getattr(o, what)
                        vals.append(("ok", np.array(v, dtype=float)))
                    except Exception as e:  # noqa
                        vals.append(("exc", type(e).__name__))
                if after_fault:
                    res.bump("reads_after_fault")
                    self.cmp(vals[0], vals[1], what, step, last_fault, 1e-12, False)
                log.add(op, vals[0][0])
        # a valid operation after the rejected one must still be possible (the object is not left in a refusing state)
        if after_fault and new["kind"] == "hist":
            r = []
            for o in (main, twin):
                try:
                    o.fill([0.5])
                    r.append(("ok", np.array(o.data, dtype=float)))
                except Exception as e:  # noqa
                    r.append(("exc", type(e).__name__))
            self.cmp(r[0], r[1], "fill-after-rejection", len(ops), last_fault, 1e-12, False)

    # -- graph host
    def run_nexus(self, ops, world, res, log):
        def mk():
            return {"nexus": nx.Nexus(), "nodes": {}}

        main, twin = mk(), mk()
        lib = {"add": lambda a, b: a + b, "mul": lambda a, b: a * b}
        deps = {}  # node -> set of children (reference bookkeeping for applicability only)
        after_fault = False
        last_fault = None

        def reaches(src, dst, seen=None):
            seen = seen or set()
            if src == dst:
                return True
            for c in deps.get(src, ()):
                if c not in seen:
                    seen.add(c)
                    if reaches(c, dst, seen):
                        return True
            return False

        for step, op in enumerate(ops[1:], start=1):
            k = op[0]
            if k == "param":
                for g in (twin, main):
                    g["nodes"][op[1]] = g["nexus"].add(nx.Parameter(op[2], name="p%d" % op[1]))
                deps[op[1]] = set()
            elif k == "func":
                if any(a not in deps for a in op[3]):
                    continue
                for g in (twin, main):
                    g["nodes"][op[1]] = g["nexus"].add(nx.Function(lib[op[2]], name="f%d" % op[1], parameters=[g["nodes"][a] for a in op[3]]))
                deps[op[1]] = set(op[3])
            elif k == "set":
                if op[1] not in deps or deps[op[1]]:
                    continue
                for g in (twin, main):
                    g["nodes"][op[1]].value = op[2]
            elif k == "dep":
                a, b = op[1], op[2]
                if a not in deps or b not in deps or not deps[a] or reaches(b, a):
                    continue
                for g in (twin, main):
                    g["nexus"].add_dependency(g["nodes"][a].name, g["nodes"][b].name)
                deps[a].add(b)
            elif k == "fault":
                c = op[2]["call"]
                fs = sorted(x for x in deps if deps[x])
                if not fs:
                    continue
                top = fs[-1]
                below = sorted(x for x in deps if x != top and reaches(top, x))
                if not below:
                    continue
                low = below[0]
                g = main

                def call():
                    if c == "cycle":
                        # low depends on top, but top depends on low already
                        if not deps[low]:
                            # a Parameter can take children too; use a function node if there is one below
                            cand = [x for x in below if deps[x]]
                            if not cand:
                                raise NotApplicable("no function below")
                            return g["nexus"].add_dependency(g["nodes"][cand[0]].name, g["nodes"][top].name)
                        return g["nexus"].add_dependency(g["nodes"][low].name, g["nodes"][top].name)
                    if c == "self_dep":
                        return g["nexus"].add_dependency(g["nodes"][top].name, g["nodes"][top].name)
                    if c == "cycle_foreign":
                        # the cycle closes through nodes of a SECOND graph whose nodes carry names that exist here as well (the layout a multi-fit
                        # builds: member graphs + aliases in a combined graph).  Valid set-up on both graphs, then the malformed call on main only.
                        cand = [x for x in below if deps[x]]
                        leaves = sorted(x for x in deps if not deps[x])
                        if not cand or not leaves:
                            raise NotApplicable("no function below / no parameter")
                        for gg in (twin, main):
                            fl, leaf = gg["nodes"][cand[0]], gg["nodes"][leaves[0]]
                            other = nx.Nexus()
                            same_name = other.add(nx.Function(lambda a: a, name=leaf.name, parameters=[fl]), add_children=False)  # another node called like `leaf`
                            root = other.add(nx.Function(lib["add"], name="foreign_root%d" % step, parameters=[same_name, leaf]), add_children=False)
                            gg["foreign%d" % step] = gg["nexus"].add(nx.Alias(root, name="foreign%d" % step), add_children=False)
                        # fl -> alias -> root -> same_name -> fl
                        return g["nexus"].add_dependency(g["nodes"][cand[0]].name, "foreign%d" % step)
                    if c == "dup":
                        return g["nexus"].add(nx.Parameter(99.0, name=g["nodes"][low].name), existing_behavior="fail")
                    if c == "cycle_add":
                        cand = [x for x in below if deps[x]]
                        if not cand:
                            raise NotApplicable("no function below")
                        bad = nx.Function(lib["add"], name="fbad%d" % step, parameters=[g["nodes"][top], g["nodes"][low]])
                        # register the new node and then make a node below depend on it
                        g["nexus"].add(bad)
                        return g["nexus"].add_dependency(g["nodes"][cand[0]].name, bad.name)
                    raise NotApplicable(c)

                if c == "cycle_add":
                    continue  # (adds a valid node first; covered by 'cycle')
                if self.reject(res, op[1], op[2], call, step):
                    after_fault = True
                    last_fault = op
            elif k in ("read", "value_dict"):
                vals = []
                for g in (main, twin):
                    try:
                        if k == "read":
                            if op[1] not in g["nodes"]:
                                vals.append(("ok", np.array([])))
                                continue
                            vals.append(("ok", np.array(g["nodes"][op[1]].value, dtype=float)))
                        else:
                            d = g["nexus"].get_value_dict(error_behavior="fail")
                            vals.append(("ok", {n: d[n] for n in sorted(d)}))
                    except RecursionError:
                        vals.append(("exc", "RecursionError"))
                    except Exception as e:  # noqa
                        vals.append(("exc", type(e).__name__))
                if after_fault:
                    res.bump("reads_after_fault")
                    self.cmp(vals[0], vals[1], "node" if k == "read" else "value_dict", step, last_fault, 1e-12, False)
        if after_fault:
            # the graph must still accept a valid edit and propagate it
            fs = sorted(x for x in deps if not deps[x])
            if fs:
                p = fs[0]
                vals = []
                for g in (main, twin):
                    try:
                        g["nodes"][p].value = 42.0
                        d = g["nexus"].get_value_dict(error_behavior="fail")
                        vals.append(("ok", {n: d[n] for n in sorted(d)}))
                    except RecursionError:
                        vals.append(("exc", "RecursionError"))
                    except Exception as e:  # noqa
                        vals.append(("exc", type(e).__name__))
                self.cmp(vals[0], vals[1], "value_dict-after-edit", len(ops), last_fault, 1e-12, False)


def _short(f):
    if f is None:
        return "?"
    s = "%s %s" % (f[1], {k: (v if not isinstance(v, list) or len(str(v)) < 40 else "[...%d]" % len(v)) for k, v in f[2].items()}) if isinstance(f, list) else str(f)
    return s[:200]


def _desc(r):
    return "raises %s" % r[1] if r[0] == "exc" else "returns a value"

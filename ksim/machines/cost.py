"""M-COST (C01, C10): mutator-only configuration scripts, observed on a *fresh replay*, against closed forms.

For each probe point p: a new fit is constructed, the script of mutators is applied (seeded order, reached through the
fit or through the objects reachable from it), set_all_parameter_values(p) is called, and the observable is read FIRST.
No read precedes the observation, so cache-history effects (C03) cannot show: only the configuration the fit
believes it has and the formula can.

C01 observables: cost_function_value, total covariance / pointwise total, model values.
C10 observables: ndf (integer ==), goodness_of_fit, chi2_probability, result dict gof/ndf; before and after do_fit.
Faults: F6 (scripted name collision), F7 (gc between mutators).
"""
import numpy as np

from .. import fitlib, userlib
from ..core import Discard, Machine, Streams, Violation, h64
from ..fitlib import FitSim, NotApplicable

FTYPES = ("xy", "indexed", "hist", "unbinned", "xy", "indexed", "xy", "hist")


def gen_script(rng, sw, spec, idx, tier, prop):
    """-> (pre_sources, ops)"""
    t = spec["type"]
    ops = []
    pre = []
    nsrc = 0
    avoid_f_c01_1 = t == "hist" and (idx // len(FTYPES)) % 6 != 0  # avoid filter for known finding F-C01-1
    avoid_model_rel = False  # (finding F-C10-2 is fixed: no avoid filter)
    special = ["none", "model_first", "model_only", "all_disabled_but_one", "after_move", "container_with_sources", "replace_data", "none"][(idx // len(FTYPES)) % 8]
    n_mut = sw.randint(1, 7 if tier == "quick" else 12)
    cost = spec["cost"]
    want_errors = cost in fitlib.NEEDS_ERRORS or (cost in ("chi2", "chi2_fast") and sw.random() < 0.85) or (cost.startswith("gauss") and sw.random() < 0.5)
    names = fitlib.par_names(spec)
    if t == "unbinned":
        want_errors = False
        special = "none"
    if special == "container_with_sources" and t != "unbinned":
        for _ in range(rng.randint(1, 2)):
            op = fitlib.gen_source(rng, spec, nsrc, allow_model=False)
            op[1]["via"] = "fit"
            pre.append(op)
            nsrc += 1
    if special == "after_move":
        ops.append(["set_all", fitlib.gen_point(rng, spec, 0.3)])
    if special == "replace_data" and t in ("xy", "indexed") and cost not in fitlib.POISSON_LIKE:
        # the data (and with them every data-referenced source) are replaced by a container that brings its own sources; the fit may have been
        # created without any uncertainty (implicit chi2 without errors) or may already have sources of its own
        if rng.random() < 0.5:
            want_errors = False
        nd = fitlib.gen_new_data(rng, spec)
        if not nd.get("sources"):
            nd = fitlib._with_sources(_Always(rng), spec, {k: v for k, v in nd.items() if k != "sources"})
        late_replace = nd
    else:
        late_replace = None
    if want_errors:
        if special == "model_first":
            ops.append(fitlib.gen_source(rng, spec, nsrc, force={"ref": "model", "kind": "simple", "axis": "y" if t == "xy" else None, "rel": (False if (t == "hist" or avoid_model_rel) else rng.random() < 0.4)}))
            nsrc += 1
        elif special == "model_only":
            op = fitlib.gen_source(rng, spec, nsrc, force={"ref": "model", "kind": "simple", "rel": (rng.random() < 0.5 and t != "hist" and not avoid_model_rel), "axis": "y" if t == "xy" else None})
            op[1]["corr"] = 0.0
            ops.append(op)
            nsrc += 1
        if special != "model_only":
            # a base y source that keeps the total positive definite
            op = fitlib.gen_source(rng, spec, nsrc, force={"kind": "simple", "axis": "y" if t == "xy" else None, "ref": rng.choice(["data", "data", "model"])})
            if (t == "hist" or avoid_model_rel) and op[1]["ref"] == "model":
                op[1]["rel"] = False
            op[1]["corr"] = rng.choice([0.0, 0.0, 0.3])
            ops.append(op)
            nsrc += 1
    if late_replace is not None:
        ops.append(["set_data", late_replace])
        nsrc = len(late_replace.get("sources") or [])
        want_errors = want_errors or nsrc > 0
    pool = ["source"] * (3 if want_errors and special != "model_only" else 0) + ["toggle"] * (2 if want_errors else 0) + ["constraint"] * 2 + ["par"] * 2 + ["gc", "collide"]
    if prop == "C10":
        pool += ["fixrel"] * 5 + ["constraint"] * 3 + ["bad"]
    midread = sw.random() < 0.3
    if midread:
        pool += ["read"] * 3  # "at any point": the observation may also follow earlier reads between the mutators
    for _ in range(n_mut):
        k = rng.choice(pool)
        if k == "source" and nsrc < 6:
            op = fitlib.gen_source(rng, spec, nsrc)
            if (avoid_f_c01_1 or avoid_model_rel) and op[1]["ref"] == "model":
                op[1]["rel"] = False
            ops.append(op)
            nsrc += 1
        elif k == "toggle" and nsrc > 1:
            i = rng.randrange(nsrc)
            if midread and rng.random() < 0.5:
                ops.append(["read", "cost"])  # the source's matrix has been evaluated (and cached) before it is switched off
            ops.append(["disable", i])
            if rng.random() < 0.6:
                if midread and rng.random() < 0.6:
                    if rng.random() < 0.5:
                        ops.append(["set_all", "PROBE"])  # the values move while the source is disabled - to a point that is observed later without setting it again
                    ops.append(["read", "cost"])
                elif not midread and (i + nsrc + len(ops)) % 2 == 0:
                    # the same move without any read in between (decided without a further draw: the other histories stay as they were)
                    ops.append(["set_all", "PROBE"])
                ops.append(["enable", i])
        elif k == "constraint" and sum(1 for o in ops if o[0] in ("constraint", "mconstraint")) < 3:
            ops.append(fitlib.gen_constraint(rng, spec))
        elif k == "par":
            r = rng.random()
            nm = rng.choice(names)
            if r < 0.3:
                ops.append(["set", {nm: fitlib.gen_point(rng, spec)[names.index(nm)]}])
            elif r < 0.5:
                ops.append(["set_all", fitlib.gen_point(rng, spec, 0.3)])
            elif r < 0.75:
                v = spec["ptrue"][names.index(nm)]
                ops.append(["limit", [nm, v - abs(v) - 1.0, v + abs(v) + 1.0]])
            else:
                ops.append(["fix", [nm, None if rng.random() < 0.5 else fitlib.gen_point(rng, spec)[names.index(nm)]]])
        elif k == "fixrel":
            nm = rng.choice(names)
            r = rng.random()
            if r < 0.5:
                ops.append(["fix", [nm, None if rng.random() < 0.6 else fitlib.gen_point(rng, spec)[names.index(nm)]]])
            else:
                ops.append(["release", nm])
        elif k == "gc":
            ops.append(["gc"])
        elif k == "bad":
            # a call that kafe2 rejects (unknown name) somewhere in the history: the counts must be those of the valid calls only
            ops.append(["bad", rng.choice(["fix_value", "fix", "release", "constraint", "limit"])])
        elif k == "read":
            ops.append(["read", rng.choice(["cost", "cost", "total_error", "ndf"])])
        elif k == "collide" and nsrc and nsrc < 6 and want_errors:
            ops.append(["collide"])
            op = fitlib.gen_source(rng, spec, nsrc, force={"kind": "simple"})
            op[1]["name"] = None
            ops.append(op)
            nsrc += 1
    if special == "all_disabled_but_one" and nsrc > 1:
        keep = rng.randrange(nsrc)
        for i in range(nsrc):
            if i != keep:
                ops.append(["disable", i])
    return pre, ops


class _Always(object):
    """rng proxy whose first random() is 1.0 (takes the 'with sources' branch of fitlib._with_sources), everything else passed through."""

    def __init__(self, rng):
        self._rng = rng
        self._first = True

    def random(self):
        if self._first:
            self._first = False
            return 1.0
        return self._rng.random()

    def __getattr__(self, name):
        return getattr(self._rng, name)


class CostMachine(Machine):
    name = "cost"
    properties = ("C01", "C10")

    def generate(self, seed, tier, idx):
        st = Streams(seed)
        sw = st("swarm")
        rng = st("ops")
        t = FTYPES[idx % len(FTYPES)]
        spec = fitlib.gen_new(rng, t, nmax=8 if tier == "quick" else 14, numerical_ok=True)
        pre, ops = gen_script(rng, sw, spec, idx, tier, getattr(self, "_prop", "C01"))
        if sw.random() < 0.12 and (spec["cost"].startswith("chi2") or spec["cost"].startswith("gauss")) and spec["cost"] != "chi2_no_errors" and t != "unbinned":
            spec["nodet"] = True
        probes = [list(spec["ptrue"])] + [fitlib.gen_point(rng, spec) for _ in range(sw.randint(1, 3))]
        if sw.random() < 0.3:
            probes.append(None)  # the fit's own defaults: no set_all before the observation
        target = [q for q in probes[1:] if q is not None]
        for op in ops:
            if op[0] == "set_all" and op[1] == "PROBE":
                op[1] = list(target[0]) if target else fitlib.gen_point(rng, spec, 0.3)
        allops = [["new", spec, pre]] + ops + [["probe", probes]]
        return {"machine": self.name, "seed": seed, "knobs": {"order": sw.choice(["shuffle", "insertion"]), "do_fit": sw.random() < 0.35, "fit_first": sw.random() < 0.2}, "ops": allops}

    def simplify(self, op):
        if op[0] == "add_error":
            a = dict(op[1])
            if isinstance(a["err"], list):
                a["err"] = a["err"][0]
                yield ["add_error", a]
            if a["corr"] != 0.0:
                b = dict(op[1])
                b["corr"] = 0.0
                yield ["add_error", b]
            if a["name"] is None:
                b = dict(op[1])
                b["name"] = "sx"
                yield ["add_error", b]
        if op[0] == "probe" and len(op[1]) > 1:
            for i in range(len(op[1])):
                yield ["probe", [op[1][i]]]
        if op[0] == "new" and op[2]:
            yield ["new", op[1], []]

    def case_tag(self, case):
        op = case["ops"][0]
        return "%s:%s" % (op[1]["type"], op[1]["cost"]) if op[0] == "new" else "?"

    def fingerprint(self, case, v):
        new = case["ops"][0][1] if case["ops"] and case["ops"][0][0] == "new" else {}
        toks = [v.get("oracle", "?"), v.get("observable", "?"), "type:%s" % new.get("type"), "cost:%s" % new.get("cost")]
        kinds = []
        for op in case["ops"][1:]:
            k = op[0]
            if k in ("add_error", "add_matrix_error"):
                a = op[1]
                k = "%s:%s:%s%s" % (k, a["ref"], "rel" if a["rel"] else "abs", (":x" if a.get("axis") in ("x", 0, "0") else ""))
            if k == "bad":
                k = "rejected:" + str(op[1])
            if k not in kinds and k not in ("probe", "gc"):
                kinds.append(k)
        if case["ops"][0][0] == "new" and case["ops"][0][2]:
            kinds.insert(0, "pre-sources")
        return ";".join(toks + kinds + list((v.get("extra") or {}).get("tags", [])))

    # ------------------------------------------------------------------ execution
    def replay(self, case, world, res, upto_probe=True):
        """Fresh fit + script.  Returns FitSim."""
        ops = case["ops"]
        new = ops[0]
        sim = FitSim(new[1], pre_sources=new[2])
        for oi, op in enumerate(ops[1:], start=1):
            k = op[0]
            if k == "probe":
                continue
            if k == "gc":
                world.collect()
                continue
            if k == "bad":
                try:
                    {"fix_value": lambda: sim.fit.fix_parameter("no_such_parameter", 1.0), "fix": lambda: sim.fit.fix_parameter("no_such_parameter"),
                     "release": lambda: sim.fit.release_parameter("no_such_parameter"), "limit": lambda: sim.fit.limit_parameter("no_such_parameter", 0.0, 1.0),
                     "constraint": lambda: sim.fit.add_parameter_constraint("no_such_parameter", 1.0, 0.1)}[op[1]]()
                    res.bump("rejected_call_was_accepted")  # (C19's question, not judged here)
                except Exception:
                    res.probe("rejected_call_in_history")
                continue
            if k == "read":
                # an intermediate read; what it returns is judged by the probes of other runs, here it only creates cache history
                try:
                    _ = {"cost": lambda: sim.fit.cost_function_value, "total_error": lambda: sim.fit.total_error, "ndf": lambda: sim.fit.ndf}[op[1]]()
                except Exception:
                    res.bump("midread_raised")
                res.probe("read_between_mutators")
                continue
            if k == "collide":
                # scripted collision of a generated name with an existing name *in the container that receives the next source*
                nxt = ops[oi + 1] if oi + 1 < len(ops) else None
                if nxt is not None and nxt[0] in ("add_error", "add_matrix_error") and nxt[1]["name"] is None:
                    same = [n for n, w in zip(sim.names, sim.src_where) if w == nxt[1]["ref"]]
                    if same:
                        world.collide_names.append(same[-1])
                continue
            try:
                sim.apply(op)
            except NotApplicable:
                continue
        return sim

    def execute(self, case, world, res, log):
        prop = case.get("property", "C01")
        ops = case["ops"]
        if not ops or ops[0][0] != "new":
            return
        probes = [o for o in ops if o[0] == "probe"]
        if not probes:
            return
        probes = probes[-1][1]
        userlib.reset_calls()
        n_checked = 0
        for pi, p in enumerate(probes):
            sim = self.replay(case, world, res)
            ref = sim.ref
            if p is not None and len(p) != ref.n_par:
                continue
            if p is None:
                p_eff = [float(v) for v in sim.fit.parameter_values]  # reading parameter values does not touch caches of results
            else:
                p_eff = list(p)
            bad = sim.domain_ok(p_eff)
            if bad:
                res.discard = bad if res.discard is None else res.discard
                res.bump("discard_" + bad)
                continue
            res.discard = None
            if pi == 0:
                for op in ops[1:]:
                    res.bump("op_" + op[0] + (":" + op[1]["ref"] if op[0] in ("add_error", "add_matrix_error") else ""))
                res.bump("fit_" + ref.ftype)
                res.bump("cost_" + ref.cost_id)
            if prop == "C01":
                self.check_c01(case, world, res, log, sim, p, p_eff, pi)
            else:
                self.check_c10(case, world, res, log, sim, p, p_eff, pi)
            n_checked += 1
            res.states.add(h64(ref.ftype, ref.effective_cost_id(), tuple((s.enabled, s.relative, s.kind, r, s.axis) for s, r in ref.sources),
                               len(ref.constraints), tuple(sorted(ref.fixed)), bool(getattr(sim.fit, "_implicit_no_errors", False))))
        res.n_ops = len(ops)
        res.nontrivial = n_checked >= 1 and len(ops) >= 4
        if n_checked == 0 and res.discard is None:
            res.discard = "no-probe-in-domain"

    # -- C01
    def check_c01(self, case, world, res, log, sim, p, p_eff, pi):
        ref = sim.ref
        fit = sim.fit
        spec = sim.spec
        quad_model = spec["type"] == "hist" and spec["bin_eval"] in ("simpson", "trapezoid", "rectangle")
        if quad_model:
            # quadrature rules: how accurate the rule is, is C13's question.  The reference takes "the model evaluated at
            # those parameters" from a sibling fresh replay on which the model is the first thing read.
            sib = self.replay(case, world, res)
            if p is not None:
                sib.fit.set_all_parameter_values(list(p))
            mvals = np.asarray(sib.fit.model, dtype=float)
            ref.model = lambda q, mvals=mvals: mvals
            ref.hist_unscaled = lambda q, mvals=mvals, N=ref.n_entries: mvals / N
            res.probe("hist_model_from_sibling")
        if case["knobs"].get("fit_first") and p is not None and pi == 0 and spec.get("bin_eval") != "numerical":
            # "at any parameter point": also after the fit has been run once (the minimizer may have selected another cost node)
            free = ref.n_par - len(ref.fixed)
            if free >= 1 and len(ref.d) >= free + 1:
                try:
                    fit.do_fit()
                    res.probe("cost_observed_after_do_fit")
                except Exception as e:
                    res.bump("discard_do_fit_raised_" + type(e).__name__)
                    return
        if p is not None and [float(v) for v in fit.parameter_values] != [float(v) for v in p]:
            fit.set_all_parameter_values(list(p))  # (a point the script has already moved to is observed as it is: "at any parameter point")
        else:
            res.probe("observed_without_setting_the_point_again")
        eps = ref.slope_rel_error_bound(p_eff)
        exp = ref.cost(p_eff)
        got = fit.cost_function_value
        tol = 1e-9 * (abs(exp) + 1.0 + abs(ref.constraint_cost(p_eff)))
        if ref.effective_cost_id() not in ("chi2_no_errors",) and ref.ftype != "unbinned" and ref.has_sources():
            V = ref.total_cov(p_eff)
            if V.size and np.all(np.isfinite(V)):
                tol += 1e-9 * abs(float(np.linalg.slogdet(V + (np.diag(ref.model(p_eff)) if ref.effective_cost_id().startswith("gauss") else 0))[1]))
        if spec["type"] == "hist" and spec["bin_eval"] == "numerical":
            tol += 1e-7 * (abs(exp) + 1.0)
        if eps > 0:
            tol += 2.0 * max(abs(ref.cost(p_eff, slope_scale=sc) - exp) for sc in ref.slope_patterns(p_eff))
            res.probe("x_errors_projected")
        if ref.ftype == "xy" and ref.has_enabled(0):
            res.probe("xy_with_enabled_x_source")
        if not (np.isfinite(got) and abs(got - exp) <= tol):
            raise Violation("C01", "closed-form", "cost", "cost_function_value is %.12g at %r, the documented -2lnL of the declared inputs is %.12g (tol %.2g)" % (
                got, p_eff, exp, tol), step=pi, expected=exp, actual=got, extra={"tags": self.tags(sim, got, p_eff)})
        log.add(["cost", pi], "ok", got)
        # sibling replays: total covariance / pointwise total / model read first
        model_rel = ref.ftype == "hist" and any(s.enabled and s.relative and r == "model" for s, r in ref.sources)  # F-C01-1 is reported through the cost
        if ref.ftype != "unbinned" and ref.has_sources() and not model_rel and (pi + case["seed"]) % 2 == 0:
            sib = self.replay(case, world, res)
            if p is not None:
                sib.fit.set_all_parameter_values(list(p))
            V = ref.total_cov(p_eff)
            if (pi // 2 + case["seed"]) % 2 == 0:
                gotV = np.asarray(sib.fit.total_cov_mat, dtype=float)
                tolV = 1e-9 * float(np.abs(V).max()) + (8.0 * eps * float(np.abs(V).max()) if eps else 0.0)
                if gotV.shape != V.shape or not np.allclose(gotV, V, rtol=0, atol=tolV):
                    raise Violation("C01", "closed-form", "total_cov_mat", "total_cov_mat (read first on a fresh replay) differs from the sum of declared enabled sources: diag %s vs %s" % (
                        np.diag(gotV) if gotV.ndim == 2 else gotV, np.diag(V)), step=pi, expected=V, actual=gotV, extra={"tags": self.tags(sim, None, p_eff)})
                log.add(["total_cov_mat", pi], "ok", gotV)
            else:
                gote = np.asarray(sib.fit.total_error, dtype=float)
                e = np.sqrt(np.diag(V))
                if gote.shape != e.shape or not np.allclose(gote, e, rtol=1e-9 + 8.0 * eps, atol=1e-12):
                    raise Violation("C01", "closed-form", "total_error", "total_error (read first on a fresh replay) is %s, expected %s" % (gote, e), step=pi,
                                    expected=e, actual=gote, extra={"tags": self.tags(sim, None, p_eff)})
                log.add(["total_error", pi], "ok", gote)
        if not quad_model and (pi + case["seed"]) % 3 == 0:
            sib = self.replay(case, world, res)
            if p is not None:
                sib.fit.set_all_parameter_values(list(p))
            gm = np.asarray(sib.fit.y_model if ref.ftype == "xy" else sib.fit.model, dtype=float)
            em = np.asarray(ref.model(p_eff), dtype=float)
            rt = 1e-7 if (spec["type"] == "hist" and spec["bin_eval"] == "numerical") else 1e-10
            if gm.shape != em.shape or not np.allclose(gm, em, rtol=rt, atol=1e-12):
                raise Violation("C01", "closed-form", "model", "model values (read first) are %s, the model function at those parameters gives %s" % (gm, em), step=pi,
                                expected=em, actual=gm)
            log.add(["model", pi], "ok", gm)

    def tags(self, sim, got, p):
        """Semantic tags: which declared input, if dropped, reproduces the observed value (the 'ignored input')."""
        ref = sim.ref
        tags = []
        if got is None or not np.isfinite(got):
            return tags
        base_tol = 1e-7 * (abs(got) + 1.0)
        # ignored source?
        for i, (s, r) in enumerate(ref.sources):
            if not s.enabled:
                s.enabled = True
                try:
                    if abs(ref.cost(p) - got) <= base_tol:
                        tags.append("disabled-source-counted:%s" % r)
                except Exception:
                    pass
                s.enabled = False
                continue
            s.enabled = False
            try:
                if abs(ref.cost(p) - got) <= base_tol:
                    tags.append("source-ignored:%s:%s%s" % (r, "rel" if s.relative else "abs", ":x" if s.axis == 0 and ref.ftype == "xy" else ""))
            except Exception:
                pass
            s.enabled = True
        for i, c in enumerate(list(ref.constraints)):
            ref.constraints.pop(i)
            try:
                if abs(ref.cost(p) - got) <= base_tol:
                    tags.append("constraint-ignored")
            except Exception:
                pass
            ref.constraints.insert(i, c)
        if ref.ftype == "hist" and any(s.enabled and s.relative and r == "model" for s, r in ref.sources):
            ref.hist_rel_unscaled = True
            try:
                if abs(ref.cost(p) - got) <= base_tol:
                    tags.append("hist-model-relative-source-refers-to-unscaled-density-integrals")
            except Exception:
                pass
            ref.hist_rel_unscaled = False
        try:
            if ref.has_det() and abs(ref.cost(p, with_det=False) - got) <= base_tol:
                tags.append("determinant-missing")
            allsrc = [(s, s.enabled) for s, _ in ref.sources]
            for s, _ in allsrc:
                s.enabled = False
            saved = ref.sources
            ref.sources = []
            if abs(ref.cost(p) - got) <= base_tol:
                tags.append("all-sources-ignored")
            ref.sources = saved
            for s, e in allsrc:
                s.enabled = e
        except Exception:
            pass
        return sorted(set(tags))

    # -- C10
    def check_c10(self, case, world, res, log, sim, p, p_eff, pi):
        ref = sim.ref
        fit = sim.fit
        spec = sim.spec
        which = ["ndf", "gof", "chi2p", "dict"][(pi + case["seed"]) % 4]
        do_fit = case["knobs"].get("do_fit") and pi == 0 and len(ref.d) >= (ref.n_par - len(ref.fixed)) + 2 and spec.get("bin_eval") != "numerical"
        # C10 is stated relative to "the cost": the known deviation F-C01-1 of how HistFit refers model-relative sources is C01's
        # business and is mirrored here so that only the ndf / GoF / probability formulas can fail this check
        ref.hist_rel_unscaled = True
        if ref.effective_cost_id().startswith("gauss_approximation") and ref.ftype != "unbinned":
            Vs = ref.total_cov(p_eff) + np.diag(np.asarray(ref.d, dtype=float))
            evs = np.linalg.eigvalsh(0.5 * (Vs + Vs.T))
            if evs.min() <= 0 or evs.max() / evs.min() > 1e7:
                res.bump("discard_saturated_variance_singular")
                return
        quad_model = spec["type"] == "hist" and spec["bin_eval"] in ("simpson", "trapezoid", "rectangle")
        if p is not None:
            fit.set_all_parameter_values(list(p))
        if do_fit:
            # "before and after fitting": the point is wherever the minimizer ends; fixed parameters stay declared.
            if len(ref.fixed) >= ref.n_par:
                return
            try:
                fit.do_fit()
            except Exception as e:  # a fit that fails is not C10's business (C06/C07): the case is discarded, never passed
                res.bump("discard_do_fit_raised_" + type(e).__name__)
                return
            p_eff = [float(v) for v in fit.parameter_values]
            if sim.domain_ok(p_eff):
                res.bump("discard_after_fit_out_of_domain")
                return
            res.probe("observed_after_do_fit")
        if quad_model:
            sib = self.replay(case, world, res)
            sib.fit.set_all_parameter_values(list(p_eff))
            mvals = np.asarray(sib.fit.model, dtype=float)
            ref.model = lambda q, mvals=mvals: mvals
            ref.hist_unscaled = lambda q, mvals=mvals, N=ref.n_entries: mvals / N
        eps = ref.slope_rel_error_bound(p_eff)
        exp_ndf = ref.ndf()
        if which == "ndf" or do_fit:
            got = fit.ndf
            if int(got) != exp_ndf or got != int(got):
                raise Violation("C10", "count", "ndf", "ndf is %r; data points %d + constraint measurements %d - parameters %d + fixed %d = %d" % (
                    got, len(ref.d), sum(c.extra_ndf for c in ref.constraints), ref.n_par, len(ref.fixed), exp_ndf), step=pi, expected=exp_ndf, actual=got)
            log.add(["ndf", pi], "ok", int(got))
            if do_fit and which == "ndf":
                which = "chi2p"  # "before and after fitting": the formulas at the fitted point (the minimizer may have switched to the pointwise cost node)
        if which == "gof":
            exp = ref.gof(p_eff)
            got = fit.goodness_of_fit
            if exp is None:
                if got is not None:
                    raise Violation("C10", "closed-form", "gof", "goodness_of_fit is %r for a cost without saturated model" % (got,), step=pi)
                return
            tol = 1e-9 * (abs(exp) + 1.0) + (1e-7 * (abs(exp) + 1.0) if spec.get("bin_eval") == "numerical" else 0.0)
            if eps > 0:
                tol += 2.0 * max(abs(ref.gof(p_eff, sc) - exp) for sc in ref.slope_patterns(p_eff))
            if got is None or not abs(got - exp) <= tol:
                raise Violation("C10", "closed-form", "gof", "goodness_of_fit is %r, cost minus saturated cost (determinant excluded) is %.12g" % (got, exp), step=pi,
                                expected=exp, actual=got)
            log.add(["gof", pi], "ok", got)
        elif which == "chi2p":
            exp = ref.chi2_probability(p_eff)
            got = fit.chi2_probability
            if exp is None:
                if got is not None:
                    raise Violation("C10", "closed-form", "chi2_probability", "chi2_probability is %r for a non-chi2 cost" % (got,), step=pi)
                return
            if exp_ndf <= 0:
                return
            tol = 1e-8 + 1e-7 * exp
            if eps > 0:
                tol += 2.0 * max(abs(ref.chi2_probability(p_eff, sc) - exp) for sc in ref.slope_patterns(p_eff))
            if got is None or not abs(got - exp) <= tol:
                raise Violation("C10", "closed-form", "chi2_probability", "chi2_probability is %r, chi2.sf(cost without determinant = %.10g, ndf = %d) is %.10g" % (
                    got, ref.cost(p_eff, with_det=False), exp_ndf, exp), step=pi, expected=exp, actual=got,
                    extra={"tags": ["pointwise-cost-with-correlated-sources"] if (ref.effective_cost_id().startswith("chi2_pointwise") and not _is_diag(ref.total_cov(p_eff))) else []})
            log.add(["chi2p", pi], "ok", got)
        elif which == "dict":
            d = fit.get_result_dict()
            if int(d["ndf"]) != exp_ndf:
                raise Violation("C10", "count", "ndf", "result dict ndf is %r, expected %d" % (d["ndf"], exp_ndf), step=pi, expected=exp_ndf, actual=d["ndf"])
            exp = ref.gof(p_eff)
            if exp is not None and exp_ndf != 0:
                tol = 1e-9 * (abs(exp) + 1.0) + (1e-7 * (abs(exp) + 1.0) if spec.get("bin_eval") == "numerical" else 0.0)
                if eps > 0:
                    tol += 2.0 * max(abs(ref.gof(p_eff, sc) - exp) for sc in ref.slope_patterns(p_eff))
                g = d["gof/ndf"]
                if g is None or not abs(g * exp_ndf - exp) <= tol * max(1.0, abs(exp_ndf)):
                    raise Violation("C10", "closed-form", "gof/ndf", "result dict gof/ndf is %r, expected %.12g" % (g, exp / exp_ndf), step=pi, expected=exp / exp_ndf, actual=g)
            log.add(["dict", pi], "ok", d["ndf"])


def _is_diag(V):
    return bool(np.all(V - np.diag(np.diagonal(V)) == 0))


class NdfMachine(CostMachine):
    """Same machine, C10 workload mix (fix / release / constraints emphasised)."""

    name = "ndf"
    _prop = "C10"

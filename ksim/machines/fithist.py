"""M-FITHIST (C03): fit observables depend only on the configuration, not on the history.

One real fit executes a seeded history of public mutators interleaved with reads of its public read-only properties.
For every read of observable o:
  oracle 'config-twin'     (class A: functions of configuration + current parameter values): a NEW fit receives the
        configuration mutators of the history (no reads, no do_fit), is brought to the same parameter point with
        set_all_parameter_values, and is asked for o FIRST.  Same code, same arithmetic => tight tolerance.
  oracle 'projection-twin' (class B: minimizer-derived results): a NEW fit receives ALL mutators incl. do_fit (no reads)
        and is asked for o first; compared "up to the minimizer tolerance".
History-independent formula bugs cancel (they are C01's business); only reads / caches / history can make these fail.
Faults: F4 clock jump inside do_fit, F6 name collision, F7 gc, N5 seeded notification order.
"""
import inspect
import io

import numpy as np

from .. import fitlib, userlib
from ..core import Machine, Streams, Violation, h64
from ..fitlib import FitSim, NotApplicable

PROP = "C03"

CLASS_B = ("parameter_errors", "parameter_cov_mat", "parameter_cor_mat", "asymmetric_parameter_errors", "did_fit", "errors_valid")
SKIP = ("data_container", "model_function", "parameter_constraints", "model_label", "dynamic_error_algorithm", "model_count", "density")
ERR_OBS_HINT = ("error", "cov_mat", "cor_mat", "cost", "goodness", "chi2")
FT = ("xy", "indexed", "hist", "unbinned", "xy", "xy", "indexed", "hist")

_PROPS = {}


def observables(fit):
    cls = type(fit)
    if cls not in _PROPS:
        names = [n for n, v in inspect.getmembers(cls) if isinstance(v, property) and not n.startswith("_")]
        _PROPS[cls] = sorted(names)
    return _PROPS[cls]


def read_obs(fit, name):
    try:
        if name == "result_dict":
            v = fit.get_result_dict()
        elif name == "report":
            s = io.StringIO()
            fit.report(output_stream=s)
            v = None
        else:
            v = getattr(fit, name)
        return ("ok", v)
    except userlib.SimCancel:
        raise
    except Exception as e:  # noqa
        return ("exc", type(e).__name__)


def _num(v):
    if v is None:
        return None
    if isinstance(v, dict):
        return {k: _num(x) for k, x in v.items()}
    if isinstance(v, (bool, np.bool_)):
        return bool(v)
    if isinstance(v, str):
        return v
    if isinstance(v, (tuple, list)) and v and isinstance(v[0], str):
        return tuple(v)
    try:
        a = np.asarray(v, dtype=float)
        return a
    except Exception:
        return ("obj", type(v).__name__)


def equalish(a, b, rtol, atol=0.0):
    """Structural comparison; returns (ok, detail)."""
    a, b = _num(a), _num(b)
    if a is None or b is None:
        return (a is None and b is None), "None vs value"
    if isinstance(a, dict) or isinstance(b, dict):
        if not (isinstance(a, dict) and isinstance(b, dict)) or list(a) != list(b):
            return False, "dict keys"
        for k in a:
            ok, d = equalish(a[k], b[k], rtol, atol)
            if not ok:
                return False, "%s: %s" % (k, d)
        return True, ""
    if isinstance(a, (bool, str, tuple)) or isinstance(b, (bool, str, tuple)):
        return (type(a) == type(b) and a == b), "%r vs %r" % (a, b)
    if a.shape != b.shape:
        return False, "shape %r vs %r" % (a.shape, b.shape)
    sc = float(np.max(np.abs(b[np.isfinite(b)]))) if np.any(np.isfinite(b)) else 0.0
    ok = bool(np.allclose(a, b, rtol=rtol, atol=atol + rtol * sc, equal_nan=True))
    if ok:
        return True, ""
    with np.errstate(all="ignore"):
        d = np.abs(a - b)
    return False, "max |diff| %.3g (scale %.3g)" % (float(np.nanmax(d)) if d.size else 0.0, sc)


class FitHistMachine(Machine):
    name = "fithist"
    properties = (PROP,)

    # ------------------------------------------------------------------ generation
    def generate(self, seed, tier, idx):
        st = Streams(seed)
        sw = st("swarm")
        rng = st("ops")
        t = FT[idx % len(FT)]
        spec = fitlib.gen_new(rng, t, nmax=7 if tier == "quick" else 12)
        spec["as_container"] = sw.random() < 0.3
        names = fitlib.par_names(spec)
        cost = spec["cost"]
        if t != "unbinned" and (cost.startswith("chi2") or cost.startswith("gauss")) and cost != "chi2_no_errors" and st("nodet").random() < 0.12:
            spec["nodet"] = True  # documented option add_determinant_cost=False (cost function handed over as an object)
        n_ops = sw.randint(4, 16 if tier == "quick" else 30)
        read_density = sw.choice([0.3, 1.0, 2.0, 3.0])
        allow_model_rel = True
        f2_run = (idx // len(FT)) % 8 == 5  # fault-injecting configurations are separate runs
        want_errors = t != "unbinned" and (cost in fitlib.NEEDS_ERRORS or sw.random() < 0.8)
        w = {"source": 3 if want_errors else 0, "toggle": 2 if want_errors else 0, "constraint": sw.choice([0, 1, 2]), "par": sw.choice([1, 2, 4]),
             "do_fit": sw.choice([0, 1, 2]), "set_data": sw.choice([0, 0, 1]), "gc": sw.choice([0, 1]), "collide": sw.choice([0, 0, 1]) if want_errors else 0,
             "par_errors": sw.choice([0, 0, 1])}
        kinds = [k for k in w]
        forced = kinds[(idx // len(FT)) % len(kinds)]
        if forced not in ("source", "toggle", "collide") or want_errors:
            w[forced] = max(w[forced], 2)
        pool = [k for k in kinds for _ in range(w[k])]
        obs_pool = None
        ops = [["new", spec, []]]
        nsrc = 0
        n_fit = 0
        zero_fixed = None
        has_model_src = False
        repeat_obs = sw.choice([None, None, "cost_function_value", "total_cov_mat", "total_error", "model"])
        before_mut = sw.random() < 0.4  # reads placed right before each mutator (exposes lost updates)

        def add_reads(k):
            for _ in range(k):
                ops.append(["read", None, rng.random()])  # observable chosen at execution from the introspected list by the stored fraction

        if want_errors:
            op = fitlib.gen_source(rng, spec, nsrc, force={"kind": "simple", "axis": "y" if t == "xy" else None, "ref": "data", "rel": False})
            op[1]["corr"] = 0.0
            op[1]["name"] = "s0"
            ops.append(op)
            nsrc += 1
        for _ in range(n_ops):
            k = rng.choice(pool)
            if before_mut:
                add_reads(1)
                if repeat_obs:
                    ops.append(["read", repeat_obs, 0.0])
            if k == "source" and nsrc < 6:
                op = fitlib.gen_source(rng, spec, nsrc)
                if op[1]["ref"] == "model":
                    if not allow_model_rel:
                        op[1]["rel"] = False
                    # (histogram fits: kafe2 refers model-relative sources to the unscaled bin integrals - open finding F-C01-1, decided by the
                    # C01 check; the twin of this check has the same scaling, so the history dimension can be explored all the same)
                    has_model_src = True
                ops.append(op)
                nsrc += 1
            elif k == "toggle" and nsrc > 1:
                i = rng.randrange(1, nsrc)
                ops.append(["disable", i])
                if rng.random() < 0.6:
                    add_reads(1 if rng.random() < 0.5 else 0)
                    ops.append(["enable", i])
            elif k == "constraint":
                ops.append(fitlib.gen_constraint(rng, spec))
            elif k == "par":
                r = rng.random()
                nm = rng.choice(names)
                pi = names.index(nm)
                if r < 0.3:
                    ops.append(["set", {nm: fitlib.gen_point(rng, spec)[pi]}])
                elif r < 0.55:
                    ops.append(["set_all", fitlib.gen_point(rng, spec, 0.25)])
                elif r < 0.7:
                    v = spec["ptrue"][pi]
                    ops.append(["limit", [nm, v - 2 * abs(v) - 2.0, v + 2 * abs(v) + 2.0]])
                elif r < 0.78:
                    ops.append(["unlimit", nm])
                elif r < 0.9:
                    fv = None if rng.random() < 0.5 else fitlib.gen_point(rng, spec)[pi]
                    if fv is not None and int(round(abs(fv) * 1e4)) % 6 == 0 and spec["type"] in ("xy", "indexed"):
                        fv = 0.0  # a parameter fixed at exactly zero (a falsy value; decided without a further draw: the other histories stay as they were)
                        zero_fixed = nm
                    ops.append(["fix", [nm, fv]])
                else:
                    ops.append(["release", nm])
            elif k == "do_fit" and n_fit < (2 if tier == "quick" else 3):
                if rng.random() < 0.3:
                    ops.append(["clock", [0.0, rng.choice([11.0, 1e5, -50.0])]])
                if f2_run and rng.random() < 0.5:
                    ops.append(["cancel", rng.randint(1, 40)])  # F2: the model function raises on its k-th evaluation inside do_fit
                ops.append(["do_fit"])
                n_fit += 1
                if zero_fixed is not None:
                    # the parameter that was fixed at exactly zero is released right after the fit and the results are inspected (no further draw)
                    ops.append(["release", zero_fixed])
                    ops.append(["read", "asymmetric_parameter_errors" if len(ops) % 2 else "parameter_cov_mat", 0.0])
                    ops.append(["read", "cost_function_value", 0.0])
                    zero_fixed = None
                if rng.random() < 0.35:
                    # results of the fit are inspected right after a parameter was fixed / released / limited (the minimizer's derived caches are
                    # rebuilt by the read while the fitted point must stay where it is)
                    nm = rng.choice(names)
                    r = rng.random()
                    ops.append(["fix", [nm, None]] if r < 0.5 else (["release", nm] if r < 0.7 else ["limit", [nm, spec["ptrue"][names.index(nm)] - 50.0, spec["ptrue"][names.index(nm)] + 50.0]]))
                    ops.append(["read", rng.choice(["parameter_cov_mat", "parameter_cor_mat", "result_dict", "parameter_errors"]), 0.0])
                    ops.append(["read", "cost_function_value", 0.0])
            elif k == "set_data" and not has_model_src:
                ops.append(["set_data", fitlib.gen_new_data(rng, spec)])
                nsrc_reset = True  # sources of the old container are gone; indices restart (executor mirrors this)
                nsrc = len(ops[-1][1].get("sources") or [])
                if nsrc:
                    # the container brought its own sources: observe before anything else touches the uncertainties
                    ops.append(["read", "cost_function_value", 0.0])
                    add_reads(2)
                elif want_errors:
                    op = fitlib.gen_source(rng, spec, nsrc, force={"kind": "simple", "axis": "y" if t == "xy" else None, "ref": "data", "rel": False})
                    op[1]["corr"] = 0.0
                    op[1]["name"] = "r%d" % len(ops)
                    ops.append(op)
                    nsrc += 1
                del nsrc_reset
            elif k == "gc":
                ops.append(["gc"])
            elif k == "collide" and nsrc and nsrc < 6:
                ops.append(["collide"])
                op = fitlib.gen_source(rng, spec, nsrc, force={"kind": "simple", "ref": "data"})
                op[1]["name"] = None
                ops.append(op)
                nsrc += 1
            elif k == "par_errors":
                ops.append(["set_par_errors", [abs(v) * 0.1 + 0.05 for v in fitlib.gen_point(rng, spec)]])
            nr = int(read_density) + (1 if rng.random() < (read_density - int(read_density)) else 0)
            add_reads(nr)
            if repeat_obs and rng.random() < 0.5:
                ops.append(["read", repeat_obs, 0.0])
            if rng.random() < 0.08:
                ops.append(["read", rng.choice(["result_dict", "report", "parameter_cov_mat", "asymmetric_parameter_errors"]), 0.0])
        add_reads(2)
        ops.append(["read", "cost_function_value", 0.0])
        del obs_pool
        return {"machine": self.name, "seed": seed, "knobs": {"order": sw.choice(["shuffle", "shuffle", "insertion", "reverse"])}, "ops": ops}

    # ------------------------------------------------------------------ shrinking / fingerprints
    def simplify(self, op):
        if op[0] == "add_error":
            a = dict(op[1])
            if isinstance(a["err"], list):
                a["err"] = a["err"][0]
                yield ["add_error", a]
            if a["corr"] != 0.0:
                b = dict(op[1])
                b["corr"] = 0.0
                yield ["add_error", b]
        if op[0] == "read" and op[1] is None:
            yield ["read", "cost_function_value", 0.0]

    def simplify_knobs(self, knobs):
        if knobs.get("order") != "insertion":
            k = dict(knobs)
            k["order"] = "insertion"
            yield k

    def case_tag(self, case):
        op = case["ops"][0]
        return "%s" % (op[1]["type"],) if op[0] == "new" else "?"

    def fingerprint(self, case, v):
        new = case["ops"][0][1] if case["ops"] and case["ops"][0][0] == "new" else {}
        toks = [v.get("oracle", "?"), v.get("observable", "?"), "type:%s" % new.get("type")]
        kinds = []
        for op in case["ops"][1:]:
            k = op[0]
            if k in ("add_error", "add_matrix_error"):
                a = op[1]
                k = "%s:%s:%s" % (k, a["ref"], "rel" if a["rel"] else "abs")
            if k == "read":
                k = "read"
            if k not in kinds and k not in ("gc",):
                kinds.append(k)
        return ";".join(toks + kinds + list((v.get("extra") or {}).get("tags", [])))

    # ------------------------------------------------------------------ execution
    def build(self, new, muts, world, with_fits, upto=None):
        """Fresh fit + mutators (no reads).  Returns FitSim."""
        sim = FitSim(new[1], pre_sources=new[2])
        pend_collide = False
        for op in muts:
            k = op[0]
            if k in ("gc", "clock", "cancel"):
                continue  # twins run without gc points, clock jumps and cancellations: results must not depend on the first two
            if k == "collide":
                pend_collide = True
                continue
            if k in ("add_error", "add_matrix_error") and pend_collide:
                pend_collide = False
                if op[1]["name"] is None:
                    same = [n for n, wh in zip(sim.names, sim.src_where) if wh == op[1]["ref"]]
                    if same:
                        world.collide_names.append(same[-1])
            self.apply_mut(sim, op, world, with_fits)
        return sim

    def apply_mut(self, sim, op, world, with_fits=True):
        k = op[0]
        fit = sim.fit
        if k == "do_fit":
            if with_fits:
                fit.do_fit()
            return
        if k == "clock":
            if with_fits:
                world.clock.jumps = list(op[1])
            return
        if k == "set_par_errors":
            if len(op[1]) != sim.ref.n_par:
                raise NotApplicable("len")
            fit.parameter_errors = list(op[1])
            return
        sim.apply(op)

    def execute(self, case, world, res, log):
        ops = case["ops"]
        if not ops or ops[0][0] != "new":
            return
        new = ops[0]
        userlib.reset_calls()
        main = FitSim(new[1], pre_sources=new[2])
        muts = []  # mutators applied so far (exactly those that were applicable)
        obs_names = [n for n in observables(main.fit) if n not in SKIP]
        n_mut = 0
        reads_after = 0
        mut_pending = False
        n_fit = 0
        pend_collide = False
        pend_cancel = 0
        tainted = False
        illposed = False
        for step, op in enumerate(ops[1:], start=1):
            k = op[0]
            if k == "gc":
                world.collect()
                res.bump("fault_F7_gc_fired")
                continue
            if k == "collide":
                pend_collide = True
                muts.append(op)
                continue
            if k != "read":
                # ---- mutator on the main fit
                if k in ("add_error", "add_matrix_error") and pend_collide:
                    pend_collide = False
                    if op[1]["name"] is None:
                        same = [n for n, wh in zip(main.names, main.src_where) if wh == op[1]["ref"]]
                        if same:
                            world.collide_names.append(same[-1])
                if k == "cancel":
                    pend_cancel = int(op[1])
                    continue
                if k == "do_fit":
                    p0 = [float(v) for v in main.fit.parameter_values]
                    free = main.ref.n_par - len(main.ref.fixed)
                    if free < 1 or len(main.ref.d) < free + 1 or main.domain_ok(p0):
                        res.bump("op_skipped_do_fit_precondition")
                        continue
                    if pend_cancel:
                        userlib.CALLS["armed"] = pend_cancel
                    try:
                        main.fit.do_fit()
                    except userlib.SimCancel:
                        # F2 (report-only, DESIGN 3.4): no property quantifies over cancelled operations.  Record what a Ctrl-C leaves behind.
                        res.bump("fault_F2_cancel_in_do_fit_fired")
                        nxs = main.fit._nexus
                        nfrozen = sum(1 for n in nxs._nodes.values() if getattr(n, "_frozen", False))
                        res.probe("FAULT-PROBE_cancelled_do_fit")
                        if nfrozen:
                            res.probe("FAULT-PROBE_nodes_left_frozen_after_cancelled_do_fit")
                        userlib.CALLS["armed"] = 0
                        res.n_ops = len(ops)
                        res.nontrivial = n_mut >= 3 and reads_after >= 2
                        return
                    except Exception as e:  # a failing fit is not C03's subject: end the run as discarded
                        userlib.CALLS["armed"] = 0
                        res.discard = "do_fit_raised_" + type(e).__name__
                        return
                    userlib.CALLS["armed"] = 0
                    pend_cancel = 0
                    if world.clock.total_advance:
                        res.bump("fault_F4_clock_jump_fired")
                    p1 = [float(v) for v in main.fit.parameter_values]
                    if not np.all(np.isfinite(p1)) or main.domain_ok(p1):
                        res.discard = "fit-left-domain"
                        return
                    n_fit += 1
                    muts.append(op)
                    res.bump("op_do_fit")
                    # well-posedness of the fitted problem (as in M-QUERY): an ill-posed fit (uncertainty larger than |value| + 1, not finite,
                    # not converged) makes every minimizer-derived number unstable; those comparisons are C06/C07's subject, not C03's
                    try:
                        _e = np.asarray(main.fit.parameter_errors, dtype=float)
                        _p = np.asarray(p1, dtype=float)
                        _free = [i for i, nm in enumerate(main.ref.par_names) if nm not in main.ref.fixed]
                        illposed = (not main.fit.did_fit) or (not np.all(np.isfinite(_e))) or bool(np.any(_e[_free] <= 0)) or bool(np.any(_e[_free] > np.abs(_p[_free]) + 1.0))
                    except Exception:
                        illposed = True
                    if illposed:
                        res.bump("fit_ill_posed_minimizer_reads_not_judged")
                    n_mut += 1
                    mut_pending = True
                    self.state(main, res)
                    continue
                try:
                    self.apply_mut(main, op, world, True)
                except NotApplicable:
                    res.bump("op_skipped")
                    continue
                muts.append(op)
                res.bump("op_" + k)
                n_mut += 1
                mut_pending = True
                self.state(main, res)
                continue
            # ---- read
            name = op[1]
            if name is None:
                name = obs_names[int(op[2] * len(obs_names)) % len(obs_names)]
            if name not in obs_names and name not in ("result_dict", "report"):
                continue
            if name == "asymmetric_parameter_errors" and main.spec["minimizer"] != "iminuit" and (
                    main.limited or (main.ref.n_par - len(main.ref.fixed)) < 2 or main.spec["dea"] == "iterative"):
                continue  # generic profile root finding with nothing left to vary / with limits: tens of seconds per call (M-QUERY, thorough tier)
            pcur = [float(v) for v in main.fit.parameter_values]
            needs_err = any(h in name for h in ERR_OBS_HINT) or name in ("result_dict", "report")
            if needs_err and main.domain_ok(pcur):
                res.bump("read_skipped_out_of_domain")
                continue
            got = read_obs(main.fit, name)
            res.bump("op_read")
            pnew = [float(v) for v in main.fit.parameter_values]
            moved = len(pnew) != len(pcur) or not np.allclose(pnew, pcur, rtol=1e-9, atol=1e-12, equal_nan=True)
            if moved and illposed and name in ("parameter_cov_mat", "parameter_cor_mat", "parameter_errors", "asymmetric_parameter_errors", "result_dict", "report"):
                moved = False
                res.bump("read_moved_not_judged_ill_posed_fit")
            if moved and len(pnew) == len(pcur) and name in ("parameter_cov_mat", "parameter_cor_mat", "parameter_errors", "asymmetric_parameter_errors", "result_dict", "report"):
                # reads that let the minimizer work: "unchanged up to the minimizer tolerance" (C08's tier)
                try:
                    sig = np.asarray(main.fit.parameter_errors, dtype=float)
                except Exception:
                    sig = np.zeros(len(pcur))
                tol = 0.05 * np.where(np.isfinite(sig) & (sig > 0), sig, 0.0) + 1e-6 * (np.abs(pcur) + 1e-3)
                moved = bool(np.any(np.abs(np.array(pnew) - np.array(pcur)) > tol))
            if not moved and len(pnew) == len(pcur) and pnew != pcur:
                # a move within the minimizer tolerance is accepted only as a re-minimisation: then the minimizer holds the same point as the graph.
                # A graph left at an excursion point of a numerical derivative while the minimizer still holds the optimum is a read that changed
                # parameter_values (and everything evaluated from them).
                try:
                    mp = [float(v) for v in main.fit._fitter._minimizer.parameter_values]
                except Exception:
                    mp = pnew
                if len(mp) == len(pnew) and not np.allclose(mp, pnew, rtol=1e-10, atol=1e-13):
                    raise Violation(PROP, "read-moved", "parameter_values", "reading %s left the graph at %s while the minimizer holds %s (before the read: %s)" % (
                        name, pnew, mp, pcur), step=step, extra={"tags": ["graph-displaced-from-minimizer"]})
            if moved:
                raise Violation(PROP, "read-moved", "parameter_values", "reading %s changed the parameter values from %s to %s" % (name, pcur, pnew), step=step,
                                extra={"tags": ["after-do_fit"] if main.fit.did_fit else []})
            if name in ("parameter_cov_mat", "parameter_cor_mat", "parameter_errors", "asymmetric_parameter_errors", "result_dict", "report"):
                tainted = True
            if name == "report":
                log.add(["read", name], got[0])
                continue
            if name in CLASS_B or name == "result_dict":
                # minimizer-derived results are compared while they are *the results of the last fit*: after a later mutator
                # kafe2 makes no statement about them (they describe an earlier configuration)
                last_is_fit = bool(muts) and muts[-1][0] == "do_fit" and not main.spec.get("tiny") and not illposed  # (badly scaled problems: the optimiser's own convergence is C06's subject)
                if (last_is_fit and (step + case["seed"]) % 2 == 0) or n_fit == 0:
                    self.check_b(case, world, res, log, new, muts, main, name, got, step, n_fit, tainted)
            else:
                self.check_a(case, world, res, log, new, muts, main, name, got, step, pcur)
            if mut_pending:
                reads_after += 1
                mut_pending = False
            self.state(main, res)
        res.n_ops = len(ops)
        res.nontrivial = n_mut >= 3 and reads_after >= 2 and len(res.states) >= 2

    def state(self, sim, res):
        f = sim.fit
        nx = f._nexus
        bits = []
        for n in sorted(nx._nodes):
            node = nx._nodes[n]
            bits.append((n, bool(getattr(node, "_stale", False)), bool(getattr(node, "_frozen", False))))
        dc = f._data_container
        pm = f._param_model
        res.states.add(h64(bits, dc._total_error is not None, pm._total_error is not None, bool(getattr(pm, "_pm_calculation_stale", False)), bool(f.did_fit),
                           f._loaded_result_dict is not None))

    # -- class A: config twin
    def check_a(self, case, world, res, log, new, muts, main, name, got, step, pcur):
        cfg = [m for m in muts if m[0] not in ("do_fit", "clock")]
        twin = self.build(new, cfg, world, with_fits=False)
        twin.fit.set_all_parameter_values(list(pcur))
        exp = read_obs(twin.fit, name)
        res.bump("compared_config_twin")
        rtol = 1e-6 if "inverse" in name else 1e-9
        self.compare("config-twin", name, got, exp, rtol, step, main, extra_tags=self.tags(main, name))
        log.add(["read", name], got[0], got[1] if got[0] == "ok" and not isinstance(_num(got[1]), tuple) else None)

    def tags(self, main, name):
        t = []
        if any(s.enabled and s.relative and r == "model" for s, r in main.ref.sources):
            t.append("model-relative-source-enabled")
        if main.fit.did_fit:
            t.append("after-do_fit")
        return t

    def compare(self, oracle, name, got, exp, rtol, step, main, extra_tags=(), atol=0.0):
        if got[0] != exp[0]:
            raise Violation(PROP, oracle, name, "%s: the fit with history %s, the fresh fit brought to the same configuration %s" % (
                name, "raised " + str(got[1]) if got[0] == "exc" else "returned a value", "raised " + str(exp[1]) if exp[0] == "exc" else "returned a value"),
                step=step, extra={"tags": list(extra_tags)})
        if got[0] == "exc":
            if got[1] != exp[1]:
                raise Violation(PROP, oracle, name, "%s raised %s on the fit with history, %s on the fresh fit" % (name, got[1], exp[1]), step=step, extra={"tags": list(extra_tags)})
            return
        ok, detail = equalish(got[1], exp[1], rtol, atol)
        if not ok:
            raise Violation(PROP, oracle, name, "%s differs between the fit with history and a fresh fit brought to the same configuration (asked for it first): %s" % (name, detail),
                            step=step, expected=_safe(exp[1]), actual=_safe(got[1]), extra={"tags": list(extra_tags)})

    # -- class B: projection twin
    def check_b(self, case, world, res, log, new, muts, main, name, got, step, n_fit, tainted):
        twin = self.build(new, muts, world, with_fits=True)
        exp = read_obs(twin.fit, name)
        res.bump("compared_projection_twin")
        tags = self.tags(main, name) + (["tainted"] if tainted else [])
        if got[0] != exp[0] or got[0] == "exc":
            self.compare("projection-twin", name, got, exp, 1e-9, step, main, extra_tags=tags)
            return
        if n_fit == 0:
            self.compare("projection-twin", name, got, exp, 1e-9, step, main, extra_tags=tags)
            return
        # after fits: "up to the minimizer tolerance"
        a, b = got[1], exp[1]
        if name == "did_fit" or name == "errors_valid":
            if bool(a) != bool(b):
                raise Violation(PROP, "projection-twin", name, "%s is %r with history, %r on the mutator-only twin" % (name, a, b), step=step, extra={"tags": tags})
            return
        sig = np.asarray(twin.fit.parameter_errors, dtype=float)
        if name == "result_dict":
            for key in ("did_fit", "ndf"):
                if a[key] != b[key]:
                    raise Violation(PROP, "projection-twin", "result_dict." + key, "result dict %s: %r vs %r" % (key, a[key], b[key]), step=step, extra={"tags": tags})
            if abs(a["cost"] - b["cost"]) > 2e-3 + 1e-6 * abs(b["cost"]):
                raise Violation(PROP, "projection-twin", "result_dict.cost", "result dict cost %.10g with history, %.10g on the mutator-only twin" % (a["cost"], b["cost"]), step=step,
                                extra={"tags": tags})
            pa = np.array(list(a["parameter_values"].values()), dtype=float)
            pb = np.array(list(b["parameter_values"].values()), dtype=float)
            if np.any(np.abs(pa - pb) > 0.05 * np.where(sig > 0, sig, np.inf) + 1e-6 * (np.abs(pb) + 1e-3)):
                raise Violation(PROP, "projection-twin", "result_dict.parameter_values", "parameter values %s with history, %s on the twin (sigma %s)" % (pa, pb, sig), step=step,
                                extra={"tags": tags})
            return
        if a is None or b is None:
            if not (a is None and b is None):
                raise Violation(PROP, "projection-twin", name, "%s is %s with history, %s on the twin" % (name, "None" if a is None else "a value", "None" if b is None else "a value"),
                                step=step, extra={"tags": tags})
            return
        a = np.asarray(a, dtype=float)
        b = np.asarray(b, dtype=float)
        if a.shape != b.shape:
            raise Violation(PROP, "projection-twin", name, "%s shape %r vs %r" % (name, a.shape, b.shape), step=step, extra={"tags": tags})
        if name == "parameter_errors":
            bad = np.abs(a - b) > 0.05 * np.abs(b) + 1e-9
        elif name == "parameter_cov_mat":
            bad = np.abs(a - b) > 0.1 * np.sqrt(np.abs(np.outer(np.diag(b), np.diag(b)))) + 1e-12
        elif name == "parameter_cor_mat":
            bad = np.abs(np.nan_to_num(a) - np.nan_to_num(b)) > 0.1
        else:  # asymmetric errors
            bad = np.abs(a - b) > 0.1 * np.abs(b) + 1e-9
        if np.any(bad):
            raise Violation(PROP, "projection-twin", name, "%s with history %s, on the mutator-only twin %s (beyond the minimizer tolerance)" % (name, a.tolist(), b.tolist()),
                            step=step, expected=b, actual=a, extra={"tags": tags})


def _safe(v):
    n = _num(v)
    if isinstance(n, np.ndarray):
        return n
    if isinstance(n, dict):
        return {k: (_safe(x)) for k, x in n.items()}
    return n

"""M-QUERY (C08): inspecting results never moves the fit.

A fitted problem (all fit types, both backends, x-errors / model-relative errors / fixed / limited parameters with an
interior optimum) receives a seeded sequence, with repetition, of the public post-fit queries.
Invariants after EVERY query:
  moved     : parameter_values, cost_function_value, parameter_errors, did_fit unchanged up to the minimizer tolerance
              (|dp| <= 0.05 sigma, |dcost| <= 1e-3 (+1e-6 rel), |dsigma|/sigma <= 0.05); fixed parameters bitwise.
  two-copies: the parameter values held by the minimizer and those of the graph (fit.parameter_values) agree to 1e-9.
  same-answer: the same query asked twice in a row gives the same answer (tolerance tier).
Faults: F7 gc between queries; exceptions raised by a query are counted (FAULT-PROBE), the invariants are still demanded.
"""
import io

import json

import numpy as np

from .. import fitlib, userlib
from ..core import Machine, Streams, Violation, h64
from ..fitlib import FitSim, NotApplicable

PROP = "C08"
FT = ("xy", "indexed", "hist", "unbinned", "xy", "xy", "indexed", "hist")


def summarize(q, r):
    """Reduce a query result to a numeric summary that is stable under the minimizer tolerance."""
    if r is None:
        return None
    k = q[0]
    try:
        if k in ("cov", "cor", "errors", "asym", "hessian", "hessian_inv", "band"):
            return np.asarray(r, dtype=float)
        if k in ("profile",):
            arr = np.asarray(r[0], dtype=float)
            return np.array([arr[0].min(), arr[0].max(), np.nanmin(arr[1]), np.nanmax(arr[1])])
        if k == "cp_profile":
            arr = np.asarray(r, dtype=float)
            return np.array([arr[0].min(), arr[0].max(), np.nanmin(arr[1]), np.nanmax(arr[1])])
        if k == "contour":
            if r is None:
                return None
            xy = np.asarray(r.xy_points, dtype=float)
            return np.array([xy[0].min(), xy[0].max(), xy[1].min(), xy[1].max()])
        if k == "result_dict":
            return np.array([r["cost"], r["ndf"]] + list(r["parameter_values"].values()), dtype=float)
    except Exception:
        return None
    return None


def _flat(r, depth=0):
    """All float content of an answer as one vector (None and strings skipped), in iteration order."""
    out = []
    if depth > 3 or r is None:
        return np.array(out, dtype=float)
    if isinstance(r, dict):
        for v in r.values():
            out.extend(_flat(v, depth + 1).tolist())
    elif isinstance(r, (float, int, np.floating, np.integer)) and not isinstance(r, bool):
        out.append(float(r))
    elif isinstance(r, np.ndarray) and r.dtype.kind in "fi":
        out.extend(float(x) for x in r.ravel())
    return np.array(out, dtype=float)


def scribble(r, depth=0):
    """The caller overwrites, in place, every array of an answer it was handed (result dictionaries, matrices, error vectors): what a caller does
    with an answer is the caller's business and must not reach the fit (the repository's own test_properties_copied states the same contract)."""
    n = 0
    if depth > 3:
        return 0
    if isinstance(r, np.ndarray):
        if r.flags.writeable and r.dtype.kind == "f" and r.size:
            r.fill(-777.0)
            return 1
        return 0
    if isinstance(r, dict):
        for v in list(r.values()):
            n += scribble(v, depth + 1)
    return n


class QueryMachine(Machine):
    name = "query"
    properties = (PROP,)

    def generate(self, seed, tier, idx):
        st = Streams(seed)
        sw = st("swarm")
        rng = st("ops")
        t = FT[idx % len(FT)]
        cost = None
        if t in ("xy", "indexed"):
            cost = rng.choice(["chi2", "chi2", "chi2_fast", "chi2_covariance", "nll_gaussian", "nll", "gauss_approximation", "chi2_pointwise"])
        if t == "hist":
            cost = rng.choice(["nll", "nll", "nllr", "chi2", "gauss_approximation"])
        spec = fitlib.gen_new(rng, t, cost=cost, nmax=8 if tier == "quick" else 12)
        spec["tiny"] = False  # badly scaled problems test the optimiser's convergence (C06), not the query protocol
        if t != "unbinned" and (spec["cost"].startswith("chi2") or spec["cost"].startswith("gauss")) and st("nodet").random() < 0.15:
            spec["nodet"] = True  # documented option add_determinant_cost=False (cost function handed over as an object)
        names = fitlib.par_names(spec)
        n = fitlib.size_of(spec)
        ops = [["new", spec, []]]
        nsrc = 0
        if t != "unbinned":
            needs = spec["cost"] not in ("nll", "nllr", "chi2_no_errors")
            if needs or rng.random() < 0.5:
                op = fitlib.gen_source(rng, spec, nsrc, force={"kind": "simple", "axis": "y" if t == "xy" else None, "ref": "data", "rel": False})
                op[1]["corr"] = rng.choice([0.0, 0.0, 0.3])
                op[1]["name"] = "s0"
                ops.append(op)
                nsrc += 1
                for _ in range(rng.randint(0, 2)):
                    op = fitlib.gen_source(rng, spec, nsrc)
                    if t == "hist" and op[1]["ref"] == "model":
                        op[1]["rel"] = False
                    ops.append(op)
                    nsrc += 1
        if rng.random() < 0.3:
            ops.append(fitlib.gen_constraint(rng, spec))
        free = list(names)
        if len(names) >= 2 and n >= len(names) + 1 and rng.random() < 0.3:
            nm = rng.choice(names)
            ops.append(["fix", [nm, spec["ptrue"][names.index(nm)]]])
            free.remove(nm)
        if rng.random() < 0.3:
            nm = rng.choice(free)
            v = spec["ptrue"][names.index(nm)]
            ops.append(["limit", [nm, v - 5 * abs(v) - 5.0, v + 5 * abs(v) + 5.0]])  # wide: the optimum stays interior
        ops.append(["set_all", fitlib.gen_point(rng, spec, 0.1)])
        ops.append(["do_fit"])
        nq = sw.randint(3, 8 if tier == "quick" else 14)
        kinds = ["cov", "cor", "errors", "asym", "profile", "contour", "cp_profile", "result_dict", "report", "hessian", "band", "gc", "cp_contours", "result_dict_asym",
                 "to_file", "to_file_asym", "eval_model"] + (["plot"] if tier == "thorough" else [])
        w = {k: sw.choice([0, 1, 2, 3]) for k in kinds}
        forced = kinds[(idx // len(FT)) % len(kinds)]
        w[forced] = max(w[forced], 3)
        if spec["minimizer"] == "scipy" and tier == "quick":
            w["contour"] = min(w["contour"], 1)
            w["cp_contours"] = 0
        pool = [k for k in kinds for _ in range(w[k])] or ["cov"]
        prev = None
        for _ in range(nq):
            k = rng.choice(pool)
            if prev is not None and rng.random() < 0.3:
                q = prev  # ask the same question again
            elif k == "profile":
                pn = rng.choice(free)
                kw = {}
                r = rng.random()
                if r < 0.3:
                    kw["sigma"] = rng.choice([1.0, 2.0])
                elif r < 0.5:
                    kw["cl"] = rng.choice([0.68, 0.9])
                elif r < 0.62:
                    # a request kafe2 rejects (range on the wrong side of the optimum / impossible confidence level): the fit must stay where it is
                    kw[rng.choice(["low_rel", "high_rel"])] = rng.choice([0.5, 1.5])
                elif r < 0.68:
                    kw["cl"] = [0.9, 1.5]
                kw["size"] = rng.choice([4, 6, 8])
                kw["subtract_min"] = rng.random() < 0.5
                kw["arrows"] = rng.random() < 0.3
                q = ["profile", pn, kw]
            elif k in ("contour", "cp_contours"):
                if len(free) < 2:
                    continue
                a, b = rng.sample(free, 2)
                q = [k, a, b, rng.choice([1.0, 1.0, 2.0])]
            elif k == "cp_profile":
                q = ["cp_profile", rng.choice(free)]
            elif k == "band":
                if t != "xy":
                    continue
                q = ["band"]
            else:
                q = [k]
            ops.append(["q"] + q)
            prev = q
        return {"machine": self.name, "seed": seed, "tier": tier, "knobs": {"order": sw.choice(["shuffle", "insertion"])}, "ops": ops}

    def simplify(self, op):
        if op[0] == "q" and op[1] == "profile" and op[3].get("arrows"):
            kw = dict(op[3])
            kw["arrows"] = False
            yield ["q", "profile", op[2], kw]

    def case_tag(self, case):
        sp = case["ops"][0][1]
        return "%s:%s" % (sp["type"], sp["minimizer"])

    def fingerprint(self, case, v):
        sp = case["ops"][0][1] if case["ops"] and case["ops"][0][0] == "new" else {}
        qs = []
        for op in case["ops"]:
            if op[0] == "q" and op[1] not in qs:
                qs.append(op[1])
        muts = sorted(set(op[0] for op in case["ops"][1:] if op[0] not in ("q", "add_error", "add_matrix_error", "set_all", "do_fit")))
        return ";".join([v.get("oracle", "?"), v.get("observable", "?"), "type:%s" % sp.get("type"), "min:%s" % sp.get("minimizer")] + muts + ["q:" + q for q in qs]
                        + list((v.get("extra") or {}).get("tags", [])))

    # ------------------------------------------------------------------ execution
    def run_query(self, sim, q):
        fit = sim.fit
        k = q[0]
        mz = fit._fitter.minimizer
        if k == "cov":
            return fit.parameter_cov_mat
        if k == "cor":
            return fit.parameter_cor_mat
        if k == "errors":
            return fit.parameter_errors
        if k == "asym":
            return fit.asymmetric_parameter_errors
        if k == "hessian":
            mz.hessian
            return mz.hessian_inv
        if k == "profile":
            kw = dict(q[2])
            pi = sim.ref.par_names.index(q[1])
            pv, pe = float(fit.parameter_values[pi]), float(fit.parameter_errors[pi])
            if "low_rel" in kw:
                kw["low"] = pv + kw.pop("low_rel") * pe  # above the optimum: rejected by kafe2
            if "high_rel" in kw:
                kw["high"] = pv - kw.pop("high_rel") * pe  # below the optimum: rejected by kafe2
            return fit._fitter.profile(q[1], **kw)
        if k == "eval_model":
            # evaluating the model function at user-chosen support points / parameters (what plots do) is a read as well
            t = sim.spec["type"]
            if t == "indexed":
                return fit.eval_model_function()
            xs = np.linspace(-2.0, 7.0, 23)
            return fit.eval_model_function(x=xs)
        if k == "contour":
            return fit._fitter.contour(q[1], q[2], sigma=q[3], numpoints=12) if sim.spec["minimizer"] == "iminuit" else fit._fitter.contour(q[1], q[2], sigma=q[3])
        if k == "cp_profile":
            from kafe2.fit.tools.contours_profiler import ContoursProfiler

            cp = ContoursProfiler(fit, profile_points=8)
            return cp.get_profile(q[1])
        if k == "cp_contours":
            from kafe2.fit.tools.contours_profiler import ContoursProfiler

            cp = ContoursProfiler(fit, contour_points=12, contour_sigma_values=(q[3],))
            cp.get_contours(q[1], q[2])
            return None
        if k == "band":
            return fit.error_band()
        if k == "report":
            fit.report(output_stream=io.StringIO())
            return None
        if k in ("to_file", "to_file_asym"):
            fit.to_file("/simfs/query.yml", calculate_asymmetric_errors=(k == "to_file_asym"))
            return None
        if k == "plot":
            import matplotlib

            matplotlib.use("Agg")
            import matplotlib.pyplot as plt
            from kafe2 import Plot

            pl = Plot(fit)
            pl.plot()
            plt.close("all")
            return None
        if k == "result_dict":
            return fit.get_result_dict()
        if k == "result_dict_asym":
            return fit.get_result_dict(asymmetric_parameter_errors=True)
        raise NotApplicable(k)

    def execute(self, case, world, res, log):
        ops = case["ops"]
        if not ops or ops[0][0] != "new":
            return
        userlib.reset_calls()
        from ..simfs import SimFS

        world.fs = SimFS()
        sim = FitSim(ops[0][1], pre_sources=ops[0][2])
        fit = sim.fit
        fitted = False
        base = None
        prev_q = None
        prev_sum = None
        answers = {}
        nq = 0
        for step, op in enumerate(ops[1:], start=1):
            k = op[0]
            if k == "do_fit":
                if fitted:
                    continue
                free = sim.ref.n_par - len(sim.ref.fixed)
                p0 = [float(v) for v in fit.parameter_values]
                if free < 1 or len(sim.ref.d) < free + 2 or sim.domain_ok(p0):
                    res.discard = "not-a-well-posed-fit"
                    return
                try:
                    fit_result = fit.do_fit()
                except Exception as e:
                    res.discard = "do_fit_raised_" + type(e).__name__
                    return
                p = np.array(fit.parameter_values, dtype=float)
                if not np.all(np.isfinite(p)) or sim.domain_ok(list(p)):
                    res.discard = "fit-left-domain"
                    return
                err = np.array(fit.parameter_errors, dtype=float)
                cost = float(fit.cost_function_value)
                if not np.all(np.isfinite(err)) or not np.isfinite(cost) or not fit.did_fit:
                    res.discard = "fit-did-not-converge"
                    return
                # interior optimum: not resting on a limit
                lim = fit._fitter.limited_parameters
                for nm, (lo, hi) in lim.items():
                    v = p[sim.ref.par_names.index(nm)]
                    if (lo is not None and v - lo < 1e-3 * (abs(v) + 1)) or (hi is not None and hi - v < 1e-3 * (abs(v) + 1)):
                        res.discard = "optimum-on-limit"
                        return
                free_idx = [i for i, nm in enumerate(sim.ref.par_names) if nm not in sim.ref.fixed]
                if np.any(err[free_idx] <= 0) or np.any(err[free_idx] > 1.0 * (np.abs(p[free_idx]) + 1.0)):
                    res.discard = "degenerate-uncertainties"
                    return
                if sim.spec["minimizer"] != "iminuit":
                    # "unchanged up to the minimizer tolerance" presupposes that the reported optimum is one: on a sibling, the fit result must be
                    # a fixed point of the minimizer itself (otherwise every re-minimising query legitimately improves it; whether do_fit converges
                    # is C06's question, not claimed)
                    sib = FitSim(ops[0][1], pre_sources=ops[0][2])
                    try:
                        for op2 in ops[1:step]:
                            if op2[0] not in ("q", "do_fit"):
                                try:
                                    sib.apply(op2)
                                except NotApplicable:
                                    pass
                        sib.fit.do_fit()
                        ps = np.array(sib.fit.parameter_values, dtype=float)
                        sib.fit._fitter._minimizer.minimize()
                        ps2 = np.array(sib.fit._fitter._minimizer.parameter_values, dtype=float)
                    except Exception:
                        res.discard = "sibling-fit-failed"
                        return
                    if ps.shape != ps2.shape or np.any(np.abs(ps2 - ps)[free_idx] > 0.02 * err[free_idx]):
                        res.discard = "fit-result-not-a-fixed-point-of-the-minimizer"
                        return
                # the first "same question twice": the cost do_fit reports and the cost the fit reports right afterwards
                try:
                    c0 = float(fit_result["cost"])
                except Exception:
                    c0 = None
                if c0 is not None and np.isfinite(c0) and not abs(c0 - cost) <= 1e-9 * (abs(cost) + 1.0):
                    raise Violation(PROP, "same-answer", "cost", "do_fit reported cost %.12g, cost_function_value read right afterwards is %.12g" % (c0, cost), step=step,
                                    expected=c0, actual=cost)
                base = {"p": p, "err": err, "cost": cost, "fixed": {nm: p[sim.ref.par_names.index(nm)] for nm in sim.ref.fixed}}
                fitted = True
                res.bump("fit_" + sim.spec["type"] + "_" + sim.spec["minimizer"])
                continue
            if k != "q":
                try:
                    sim.apply(op)
                except NotApplicable:
                    pass
                continue
            if not fitted:
                continue
            q = op[1:]
            if q[0] == "gc":
                world.collect()
                res.bump("fault_F7_gc_fired")
                continue
            if q[0] in ("profile", "cp_profile") and q[1] in sim.ref.fixed:
                continue
            if q[0] in ("contour", "cp_contours") and (q[1] in sim.ref.fixed or q[2] in sim.ref.fixed):
                continue
            if q[0] == "plot" and sim.spec["type"] == "unbinned" and len(sim.ref.d) > 30:
                continue
            if q[0] in ("to_file_asym", "result_dict_asym") and sim.spec["minimizer"] != "iminuit" and case.get("tier") != "thorough":
                continue  # generic profile search: seconds per parameter; thorough tier only
            if q[0] in ("profile", "cp_profile") and sim.spec["minimizer"] != "iminuit" and ((sim.ref.n_par - len(sim.ref.fixed)) == 1 or sim.limited) and case.get("tier") != "thorough":
                res.bump("query_skipped_scipy_profile_single_parameter")
                continue  # constrained SLSQP with nothing left to vary runs to its iteration limit (tens of seconds): thorough tier only
            if q[0] in ("contour", "cp_contours") and sim.spec["minimizer"] != "iminuit" and sim.spec["cost"] in fitlib.POISSON_LIKE:
                res.bump("query_skipped_scipy_contour_poisson")
                continue  # scipy contour heuristic on Poisson likelihoods: > 5 min per contour observed (model excursions to non-positive means); report-only
            if q[0] in ("contour", "cp_contours") and sim.spec["minimizer"] != "iminuit" and (case.get("tier") != "thorough" or sim.limited):
                res.bump("query_skipped_scipy_contour")
                continue  # the scipy contour heuristic can take minutes (with limits: > 4 min observed); thorough tier, unlimited parameters only
            if q[0] in ("asym", "result_dict_asym", "profile", "contour", "cp_profile", "cp_contours", "to_file_asym") and sim.spec["dea"] == "iterative" and (
                    sim.ref.has_enabled(0) or any(s.enabled and s.relative and r == "model" for s, r in sim.ref.sources)):
                # kafe2 documents that these cannot be computed with the iterative treatment and switches algorithm with a warning
                res.bump("query_skipped_iterative_dynamic_errors")
                continue
            raised = None
            try:
                r = self.run_query(sim, q)
            except NotApplicable:
                continue
            except Exception as e:  # noqa
                raised = type(e).__name__
                r = None
                res.probe("query_raised_%s_%s" % (q[0], raised))
            nq += 1
            res.bump("op_q_" + q[0])
            self.invariants(sim, base, q, step, raised, res)
            s = summarize(q, r)
            if s is not None:
                s = np.array(s, dtype=float)  # (own copy: the answer itself is overwritten below)
            if raised is None and q[0] in ("cov", "cor", "errors", "asym", "result_dict", "result_dict_asym") and r is not None:
                keep = _flat(r)
                if scribble(r):
                    res.probe("answer_overwritten_by_caller")
                    self.invariants(sim, base, q, step, None, res)
                    if q[0] == "result_dict":
                        # the same question directly again (nothing is computed in between: the answers must agree exactly)
                        again = _flat(fit.get_result_dict())
                        if again.shape != keep.shape or not np.array_equal(again, keep, equal_nan=True):
                            raise Violation(PROP, "same-answer", "result_dict", "get_result_dict() answered %s; after the caller overwrote the arrays of that answer in place the "
                                            "same question is answered %s" % (_fmt(keep), _fmt(again)), step=step, expected=keep, actual=again, extra={"tags": ["answer-aliased"]})
            qkey = json.dumps(q, sort_keys=True)
            if prev_q != q and raised is None and s is not None and answers.get(qkey) is not None:
                # the same question again after other queries in between
                prev_q, prev_sum = q, answers[qkey]
                res.probe("same_question_again_later")
            if prev_q == q and raised is None and s is not None and prev_sum is not None:
                res.probe("same_question_twice")
                if s.shape != prev_sum.shape or not np.allclose(s, prev_sum, rtol=0.05, atol=0.05 * float(np.max(np.abs(prev_sum))) + 1e-9, equal_nan=True):
                    tags = []
                    if q[0] in ("profile", "cp_profile"):
                        pi = sim.ref.par_names.index(q[1])
                        far = 1e4 * (abs(base["err"][pi]) + 1e-12)
                        if any(abs(v - base["p"][pi]) > far for v in list(s[:2]) + list(prev_sum[:2])):
                            tags.append("diverged-profile-bounds")
                        elif s.shape == prev_sum.shape and np.allclose(s[:3], prev_sum[:3], rtol=1e-6, atol=1e-9):
                            # same scan range and same minimum, only the largest scan value differs between the two identical requests: a pinned
                            # re-minimisation that did not converge at one scan point in one of them (open finding F-C08-6)
                            tags.append("nonconverged-scan-point")
                    raise Violation(PROP, "same-answer", q[0], "query %r asked twice in a row gave %s then %s" % (q, _fmt(prev_sum), _fmt(s)), step=step,
                                    expected=prev_sum, actual=s, extra={"tags": tags})
            prev_q, prev_sum = q, (s if raised is None else None)
            if raised is None and s is not None:
                answers[qkey] = s
            log.add(["q"] + list(q), "raised" if raised else "ok", s)
            nx = fit._nexus
            res.states.add(h64(q[0], tuple((n, bool(getattr(nx._nodes[n], "_stale", False)), bool(getattr(nx._nodes[n], "_frozen", False))) for n in sorted(nx._nodes)),
                               tuple(sorted(fit._fitter.fixed_parameters))))
        res.n_ops = len(ops)
        res.nontrivial = fitted and nq >= 2

    def invariants(self, sim, base, q, step, raised, res):
        fit = sim.fit
        tags = ["query-raised:" + raised] if raised else []
        p = np.array(fit.parameter_values, dtype=float)
        sig = np.where(base["err"] > 0, base["err"], 0.0)
        if p.shape != base["p"].shape or np.any(np.abs(p - base["p"]) > 0.05 * sig + 1e-7 * (np.abs(base["p"]) + 1e-3)):
            raise Violation(PROP, "moved", "parameter_values", "after query %r the parameter values are %s, after the fit they were %s (sigma %s)" % (
                q, _fmt(p), _fmt(base["p"]), _fmt(base["err"])), step=step, expected=base["p"], actual=p, extra={"tags": tags})
        for nm, v in base["fixed"].items():
            if p[sim.ref.par_names.index(nm)] != v:
                raise Violation(PROP, "moved", "fixed_parameter", "fixed parameter %s changed from %r to %r after query %r" % (nm, v, p[sim.ref.par_names.index(nm)], q),
                                step=step, extra={"tags": tags})
        mp = np.array(fit._fitter.minimizer.parameter_values, dtype=float)
        if mp.shape != p.shape or not np.allclose(mp, p, rtol=1e-9, atol=1e-12):
            raise Violation(PROP, "two-copies", "minimizer_vs_graph", "after query %r the minimizer holds %s but the graph evaluates the model at %s" % (q, _fmt(mp), _fmt(p)),
                            step=step, expected=p, actual=mp, extra={"tags": tags})
        c = float(fit.cost_function_value)
        if not abs(c - base["cost"]) <= 1e-3 + 1e-6 * abs(base["cost"]):
            raise Violation(PROP, "moved", "cost_function_value", "after query %r the cost is %.10g, after the fit it was %.10g" % (q, c, base["cost"]), step=step,
                            expected=base["cost"], actual=c, extra={"tags": tags})
        if not fit.did_fit:
            raise Violation(PROP, "moved", "did_fit", "after query %r did_fit is False" % (q,), step=step, extra={"tags": tags})
        e = np.array(fit.parameter_errors, dtype=float)
        if e.shape != base["err"].shape or np.any(np.abs(e - base["err"]) > 0.05 * base["err"] + 1e-9):
            raise Violation(PROP, "moved", "parameter_errors", "after query %r the symmetric uncertainties are %s, after the fit they were %s" % (q, _fmt(e), _fmt(base["err"])),
                            step=step, expected=base["err"], actual=e, extra={"tags": tags})
        res.bump("invariant_checks")


def _fmt(a):
    return np.array2string(np.asarray(a, dtype=float), precision=6, separator=", ")

"""Machine registry (lazy imports so a worker only loads what it runs)."""
import importlib

_REG = {
    "nexus": ("ksim.machines.nexus", "NexusMachine"),
    "hist": ("ksim.machines.hist", "HistMachine"),
    "cont": ("ksim.machines.cont", "ContMachine"),
    "cost": ("ksim.machines.cost", "CostMachine"),
    "ndf": ("ksim.machines.cost", "NdfMachine"),
    "fithist": ("ksim.machines.fithist", "FitHistMachine"),
    "query": ("ksim.machines.query", "QueryMachine"),
    "multi": ("ksim.machines.multi", "MultiMachine"),
    "io": ("ksim.machines.io", "IOMachine"),
    "reject": ("ksim.machines.reject", "RejectMachine"),
}
_INST = {}


def get(name):
    m = _INST.get(name)
    if m is None:
        mod, cls = _REG[name]
        m = _INST[name] = getattr(importlib.import_module(mod), cls)()
    return m

"""Reference model for C02: a list of declared uncertainty sources and the current values.

V_axis = sum over enabled sources on that axis of (sigma sigma^T) o rho, where a relative source's sigma is its
relative size times the container's *current* values (signed).  Independent of kafe2.
"""
import numpy as np


class RefSource(object):
    def __init__(self, name, axis, kind, relative, err=None, corr=0.0, mat=None, mtype=None, enabled=True):
        self.name = name
        self.axis = axis  # 0 / 1 (containers with one axis use 0)
        self.kind = kind  # 'simple' | 'matrix'
        self.relative = relative
        self.err = None if err is None else np.asarray(err, dtype=float)
        self.corr = float(corr)
        self.mat = None if mat is None else np.asarray(mat, dtype=float)
        self.mtype = mtype  # 'cov' | 'cor'
        self.enabled = enabled

    def cov(self, values):
        v = np.asarray(values, dtype=float)
        if self.kind == "simple":
            s = self.err * v if self.relative else self.err
            c = self.corr
            return np.diag(s**2 * (1.0 - c)) + np.outer(s, s) * c
        if self.mtype == "cov":
            m = self.mat
        else:
            m = np.outer(self.err, self.err) * self.mat
        if self.relative:
            m = m * np.outer(v, v)
        return np.array(m, dtype=float)


class RefContainer(object):
    def __init__(self, naxes, size):
        self.naxes = naxes
        self.size = size
        self.sources = []  # declaration order

    def get(self, name):
        for s in self.sources:
            if s.name == name:
                return s
        return None

    def total(self, axis, values):
        V = np.zeros((self.size, self.size))
        for s in self.sources:
            if s.enabled and s.axis == axis:
                V = V + s.cov(values)
        return V


def ref_err(V):
    return np.sqrt(np.diag(V))


def ref_cor(V):
    d = np.sqrt(np.diag(V))
    with np.errstate(all="ignore"):
        return V / np.outer(d, d)

"""Reference model for C01 / C10: the documented -2 ln L of exactly the declared inputs, in closed form.

Independent of kafe2: built only from the *declared* configuration (data, model function, sources, constraints).
"""
import math

import numpy as np
from scipy.special import gammaln
from scipy.stats import chi2 as chi2_dist

from .container import RefSource


class RefConstraint(object):
    def __init__(self, kind, idx, values, unc=None, mat=None, mtype="cov", rel=False):
        self.kind = kind  # simple | matrix
        self.idx = idx  # int or list of int
        self.values = values
        self.unc = unc
        self.mat = mat
        self.mtype = mtype
        self.rel = rel

    @property
    def extra_ndf(self):
        return 1 if self.kind == "simple" else len(self.idx)

    def cost(self, p):
        if self.kind == "simple":
            u = self.unc * self.values if self.rel else self.unc
            return ((p[self.idx] - self.values) / u) ** 2
        v = np.asarray(self.values, dtype=float)
        M = np.asarray(self.mat, dtype=float)
        if self.mtype == "cov":
            C = M * np.outer(v, v) if self.rel else M
        else:
            u = np.asarray(self.unc, dtype=float)
            if self.rel:
                u = u * v
            C = M * np.outer(u, u)
        r = np.asarray(p, dtype=float)[list(self.idx)] - v
        return float(r.dot(np.linalg.solve(C, r)))


class RefFit(object):
    """Declared configuration of one fit."""

    def __init__(self, ftype, cost_id):
        self.ftype = ftype  # xy | indexed | hist | unbinned
        self.cost_id = cost_id
        self.x = None  # xy: x data
        self.d = None  # y data / indexed data / bin contents / unbinned sample
        self.n_entries = None  # hist
        self.edges = None
        self.model = None  # callable p -> model values (y model / indexed model / density integrals*N / pdf at samples)
        self.dmodel_dx = None  # xy: analytic slope  (x, *p)
        self.d3model_dx3 = None
        self.hist_rel_unscaled = False
        self.hist_unscaled = None  # hist: p -> bin integrals (model container values; kafe2 refers model-relative sources to them)
        self.par_names = []
        self.sources = []  # (RefSource, ref) with ref in data|model ; axis 0 = x, 1 = y (non-xy fits use axis 1)
        self.constraints = []
        self.fixed = {}
        self.n_par = 0
        self.add_det = True  # option add_determinant_cost of the chi2 / Gaussian-approximation cost functions
        self.cost_object = False  # cost function handed over as an object (no implicit chi2_no_errors fallback)
        self.implicit_gone = False  # a source was declared at some time: the stand-in cost for "no uncertainties at all" is not re-instated when they vanish

    # -- uncertainty model
    def cov_axis(self, axis, p):
        n = len(self.d)
        V = np.zeros((n, n))
        for s, ref in self.sources:
            if not s.enabled or s.axis != axis:
                continue
            if axis == 0:
                vals = self.x
            elif ref == "data":
                vals = self.d
            else:
                vals = self.model_ref_values(p)
            V = V + s.cov(vals)
        return V

    def model_ref_values(self, p):
        # "relative to the model at those parameters": the model the fit reports (for histograms: N * bin integrals)
        if self.ftype == "hist" and self.hist_rel_unscaled:
            return self.hist_unscaled(p)  # only used to *tag* a mismatch, never as the expectation
        return self.model(p)

    def has_sources(self):
        return any(True for s, _ in self.sources)

    def has_enabled(self, axis=None):
        return any(s.enabled and (axis is None or s.axis == axis) for s, _ in self.sources)

    def slope(self, p):
        return np.asarray(self.dmodel_dx(self.x, *p), dtype=float)

    def total_cov(self, p, slope_scale=1.0):
        Vy = self.cov_axis(1, p)
        if self.ftype != "xy":
            return Vy
        Vx = self.cov_axis(0, p)
        if not np.any(Vx):
            return Vy
        g = self.slope(p) * slope_scale
        return Vy + Vx * np.outer(g, g)

    def total_err(self, p, slope_scale=1.0):
        return np.sqrt(np.diag(self.total_cov(p, slope_scale)))

    def slope_rel_error_bound(self, p):
        """Relative discretisation error of kafe2's documented central difference with step 0.01*sigma_x."""
        if self.ftype != "xy" or self.d3model_dx3 is None:
            return 0.0
        Vx = self.cov_axis(0, p)
        if not np.any(Vx):
            return 0.0
        dx = 0.01 * np.sqrt(np.diag(Vx))
        dx = np.where(dx == 0, 1e-2 * (np.abs(self.x) + 1.0 / (1.0 + np.abs(self.x))), dx)
        f1 = np.abs(self.slope(p))
        f3 = np.abs(np.asarray(self.d3model_dx3(self.x, *p), dtype=float))
        fv = np.abs(np.asarray(self.model(p), dtype=float))
        with np.errstate(all="ignore"):
            # truncation error of the central difference + its rounding error (matters for tiny steps)
            # (rounding: of the two function values AND of the two arguments x +- dx, which moves each value by eps |x| f')
            rel = np.where(f1 > 0, f3 * dx**2 / 6.0 / f1 + 4e-16 * (fv + f1 * np.abs(self.x) + f1 * dx) / (dx * f1), 0.0)
        self._eps_vec = rel
        return float(np.max(rel)) if rel.size else 0.0

    def slope_patterns(self, p, factor=4.0):
        """Slope perturbation vectors covering the discretisation error of the numeric slope (sign patterns per point)."""
        eps = self.slope_rel_error_bound(p)
        if eps <= 0:
            return []
        e = np.asarray(self._eps_vec, dtype=float) * factor + 1e-12
        n = len(e)
        pats = [np.ones(n), -np.ones(n), np.array([(-1.0) ** i for i in range(n)]), np.array([(-1.0) ** (i // 2) for i in range(n)])]
        rs = np.random.RandomState(12345)
        for _ in range(4):
            pats.append(rs.choice([-1.0, 1.0], size=n))
        return [1.0 + s * e for s in pats]

    # -- cost
    def constraint_cost(self, p):
        return float(sum(c.cost(np.asarray(p, dtype=float)) for c in self.constraints))

    def effective_cost_id(self):
        cid = self.cost_id
        if cid == "chi2" and not self.has_sources() and not self.cost_object and not self.implicit_gone:
            return "chi2_no_errors"  # no source declared: documented fallback of the default cost function
        return cid

    def cost(self, p, slope_scale=1.0, with_det=True, saturated=False):
        cid = self.effective_cost_id()
        with_det = with_det and self.add_det
        p = [float(v) for v in p]
        m = np.asarray(self.model(p), dtype=float)
        cc = self.constraint_cost(p)
        if self.ftype == "unbinned":
            return float(-2.0 * np.sum(np.log(m)) + cc)
        d = np.asarray(self.d, dtype=float)
        if saturated:
            m = d
        r = d - m
        if cid == "chi2_no_errors":
            return float(r.dot(r) + cc)
        if cid in ("chi2", "chi2_fast", "chi2_covariance", "chi2_covariance_fast"):
            V = self.total_cov(p, slope_scale)
            c = float(r.dot(np.linalg.solve(V, r)))
            if with_det:
                c += float(np.linalg.slogdet(V)[1])
            return c + cc
        if cid in ("chi2_pointwise", "chi2_pointwise_errors"):
            s = self.total_err(p, slope_scale)
            c = float(np.sum((r / s) ** 2))
            if with_det:
                c += float(2.0 * np.sum(np.log(s)))
            return c + cc
        if cid in ("nll", "nll_poisson", "poisson", "nllr", "nllr_poisson"):
            ll = np.sum(d * np.log(m) - m - gammaln(d + 1.0)) if not saturated else np.sum(_xlogy(d, d) - d - gammaln(d + 1.0))
            if cid.startswith("nllr"):
                sat = np.sum(_xlogy(d, d) - d - gammaln(d + 1.0))
                return float(-2.0 * (ll - sat) + cc)
            return float(-2.0 * ll + cc)
        if cid in ("nll_gaussian", "nllr_gaussian"):
            s = self.total_err(p, slope_scale)
            q = np.sum((r / s) ** 2)
            if cid == "nllr_gaussian":
                return float(q + cc)
            return float(q + np.sum(np.log(2.0 * math.pi * s**2)) + cc)
        if cid in ("gauss_approximation", "gauss_approximation_covariance", "gauss_approximation_covariance_fast"):
            mm = np.asarray(self.model(p), dtype=float)
            V = self.total_cov(p, slope_scale) + np.diag(mm)
            c = float(r.dot(np.linalg.solve(V, r)))
            if with_det:
                c += float(np.linalg.slogdet(V)[1])
            return c + cc
        if cid in ("gauss_approximation_pointwise", "gauss_approximation_pointwise_errors"):
            mm = np.asarray(self.model(p), dtype=float)
            var = mm + self.total_err(p, slope_scale) ** 2
            c = float(np.sum(r**2 / var))
            if with_det:
                c += float(np.sum(np.log(var)))
            return c + cc
        raise KeyError(cid)

    # -- C10
    def ndf(self):
        n_d = len(self.d)
        return n_d + sum(c.extra_ndf for c in self.constraints) - self.n_par + len(self.fixed)

    def is_chi2(self):
        return self.effective_cost_id().startswith("chi2")

    def has_det(self):
        return self.effective_cost_id() in ("chi2", "chi2_fast", "chi2_covariance", "chi2_covariance_fast", "chi2_pointwise", "chi2_pointwise_errors")

    def gof(self, p, slope_scale=1.0):
        """cost minus the cost of the saturated model (model := data); determinant term excluded; constraints stay."""
        if self.ftype == "unbinned":
            return None
        cid = self.effective_cost_id()
        full = self.cost(p, slope_scale, with_det=False)
        if cid.startswith("gauss_approximation"):
            # saturated: residual 0 -> quadratic form 0, variance term is excluded like the determinant
            return full
        sat = self.cost(p, slope_scale, with_det=False, saturated=True) - self.constraint_cost(p)
        return full - sat

    def chi2_probability(self, p, slope_scale=1.0):
        if not self.is_chi2():
            return None
        c = self.cost(p, slope_scale, with_det=False)
        return float(chi2_dist.sf(c, self.ndf()))


def _xlogy(a, b):
    a = np.asarray(a, dtype=float)
    b = np.asarray(b, dtype=float)
    with np.errstate(all="ignore"):
        return np.where(a == 0, 0.0, a * np.log(np.where(b > 0, b, 1.0)))

"""Reference model for C04: keeps the graph *definition* and evaluates it from scratch on every read.

Independent of kafe2 (imports nothing from it).  No caching, no staleness: value(n) is the recursive
evaluation of n's definition on the current parameter values; a frozen node returns its snapshot.
"""
import copy


class RefFail(Exception):
    """Reference evaluation raised (a library function rejected its input / no fallback alternative)."""

    def __init__(self, exc_type):
        Exception.__init__(self, exc_type)
        self.exc_type = exc_type


def _failneg(a):
    if a < 0:
        raise ValueError("negative input")
    return a


def _tsum(t):
    s = 0.0
    for v in t:
        s = s + v
    return s


# key -> (input types, callable).  's' scalar input, 'q' sequence (tuple/array) input.  All return scalars.
LIB = {
    "add": ("ss", lambda a, b: a + b),
    "sub": ("ss", lambda a, b: a - b),
    "mul": ("ss", lambda a, b: a * b),
    "first": ("ss", lambda a, b: a),
    "neg": ("s", lambda a: -a),
    "absf": ("s", lambda a: abs(a)),
    "inc": ("s", lambda a: a + 1.0),
    "sum3": ("sss", lambda a, b, c: a + b + c),
    "const7": ("", lambda: 7.0),
    "const2": ("", lambda: 2.0),
    "failneg": ("s", _failneg),
    "tsum": ("q", _tsum),
    "pick0": ("q", lambda t: t[0]),
    "tlen": ("q", lambda t: float(len(t))),
}

BINOPS = {"add": lambda a, b: a + b, "sub": lambda a, b: a - b, "mul": lambda a, b: a * b}
UNOPS = {"neg": lambda a: -a, "abs": lambda a: abs(a), "pos": lambda a: +a}

SEQ_KINDS = ("T", "R")  # Tuple, aRray


class RNode(object):
    __slots__ = ("id", "kind", "value", "fkey", "params", "deps", "frozen", "frozen_val", "alive", "typ", "countable")

    def __init__(self, nid, kind):
        self.id = nid
        self.kind = kind  # P F A T R B(fallback)
        self.value = None
        self.fkey = None
        self.params = []  # ordered definition inputs (params / ref / elements / try nodes)
        self.deps = []  # dependency-only children
        self.frozen = False
        self.frozen_val = None
        self.alive = True
        self.typ = "s"
        self.countable = False


class RefGraph(object):
    def __init__(self):
        self.nodes = {}
        self.events = set()  # semantic tags of what the history contained (used for finding fingerprints)

    # -- structure helpers
    def has(self, nid):
        n = self.nodes.get(nid)
        return n is not None and n.alive

    def children(self, nid):
        n = self.nodes[nid]
        return list(n.params) + list(n.deps)

    def parents(self, nid):
        return [m.id for m in self.nodes.values() if m.alive and nid in (m.params + m.deps)]

    def reaches(self, src, dst):
        """True if dst is reachable from src by following child edges (src depends on dst)."""
        seen = set()
        stack = [src]
        while stack:
            x = stack.pop()
            if x == dst:
                return True
            if x in seen:
                continue
            seen.add(x)
            stack.extend(self.children(x))
        return False

    def dependents(self, nid):
        """All nodes that (transitively) depend on nid, including nid."""
        out = set([nid])
        changed = True
        while changed:
            changed = False
            for m in self.nodes.values():
                if m.id in out:
                    continue
                for c in m.params + m.deps:
                    if c in out:
                        out.add(m.id)
                        changed = True
                        break
        return out

    def acyclic_after_subst(self, old, new):
        """Would replacing old by new in every parent keep the graph acyclic?"""
        for p in self.parents(old):
            if self.reaches(new, p):
                return False
        return True

    # -- evaluation
    def eval(self, nid):
        n = self.nodes[nid]
        if n.frozen:
            return copy.deepcopy(n.frozen_val)
        k = n.kind
        if k == "P":
            return n.value
        if k == "E":
            raise RefFail("TypeError")  # a placeholder that has not been filled in yet has no value
        if k == "F":
            args = [self.eval(c) for c in n.params]
            for c in n.deps:  # real graph refreshes dependency-only children too
                self.eval(c)
            f = n.fkey
            try:
                if f[0] == "lib":
                    return LIB[f[1]][1](*args)
                if f[0] == "bin":
                    return BINOPS[f[1]](*args)
                if f[0] == "un":
                    return UNOPS[f[1]](*args)
            except ValueError:
                raise RefFail("ValueError")
            raise AssertionError(f)
        if k == "A":
            return self.eval(n.params[0])
        if k == "T":
            return tuple(self.eval(c) for c in n.params)
        if k == "R":
            return [self.eval(c) for c in n.params]
        if k == "B":
            for c in n.params:
                try:
                    return self.eval(c)
                except RefFail:
                    self.events.add("fallback_after_failed_alternative")
            raise RefFail("RuntimeError")
        raise AssertionError(k)

    def failure_types(self, nid):
        """Exception types with which some node below (or at) nid fails on its own: when several inputs fail, which failure surfaces
        first is a matter of evaluation order, which the statement does not fix."""
        out = set()
        seen = set()
        stack = [nid]
        while stack:
            x = stack.pop()
            if x in seen:
                continue
            seen.add(x)
            r = self.safe_eval(x)
            if r[0] == "exc":
                out.add(r[1])
            stack.extend(self.children(x))
        return out

    def safe_eval(self, nid):
        """-> ('ok', value) | ('exc', type name)"""
        try:
            return ("ok", self.eval(nid))
        except RefFail as e:
            return ("exc", e.exc_type)

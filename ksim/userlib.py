"""User library: model / density functions handed to kafe2 by the harness.

A real file, so inspect.getsource works (YAML export).  Every function counts its evaluations and can be
armed to raise on the k-th evaluation (fault F2).  Analytic derivatives / antiderivatives for the reference
models live next to each function.
"""
import numpy as np
from scipy.special import erf

CALLS = {"n": 0, "armed": 0}


class SimCancel(BaseException):
    """Injected cancellation raised from inside a user function (like Ctrl-C)."""


def _tick():
    CALLS["n"] += 1
    if CALLS["armed"]:
        CALLS["armed"] -= 1
        if CALLS["armed"] == 0:
            raise SimCancel("injected failure in user function")


def reset_calls():
    CALLS["n"] = 0
    CALLS["armed"] = 0


# ------------------------------------------------------------------ xy models: f(x, *p)


def linear(x, a=1.0, b=0.5):
    _tick()
    return a * x + b


def quadratic(x, a=0.5, b=1.0, c=2.0):
    _tick()
    return a * x * x + b * x + c


def expo(x, A=2.0, k=0.3):
    _tick()
    return A * np.exp(k * x)


def sine(x, A=3.0, w=0.7, c=5.0):
    _tick()
    return A * np.sin(w * x) + c


def recip(x, a=2.0, b=1.0):
    _tick()
    return a / (1.0 + x * x) + b


def linear_ac(x, a=1.0, c=0.5):
    _tick()
    return a * x + c


def linear_cb(x, c=0.5, b=1.0):
    _tick()
    return b * x + c


XY_MODELS = {
    # (the same straight line under other parameter names / orders: overlap patterns of names in multi-fits)
    "linear_ac": (linear_ac, lambda x, a, c: a + 0.0 * x, lambda x, a, c: 0.0 * x, ["a", "c"], [1.0, 0.5]),
    "linear_cb": (linear_cb, lambda x, c, b: b + 0.0 * x, lambda x, c, b: 0.0 * x, ["c", "b"], [0.5, 1.0]),
    "linear": (linear, lambda x, a, b: a + 0.0 * x, lambda x, a, b: 0.0 * x, ["a", "b"], [1.0, 0.5]),
    "quadratic": (quadratic, lambda x, a, b, c: 2 * a * x + b, lambda x, a, b, c: 0.0 * x, ["a", "b", "c"], [0.5, 1.0, 2.0]),
    "expo": (expo, lambda x, A, k: A * k * np.exp(k * x), lambda x, A, k: A * k**3 * np.exp(k * x), ["A", "k"], [2.0, 0.3]),
    "sine": (sine, lambda x, A, w, c: A * w * np.cos(w * x), lambda x, A, w, c: -A * w**3 * np.cos(w * x), ["A", "w", "c"], [3.0, 0.7, 5.0]),
    "recip": (recip, lambda x, a, b: -2 * a * x / (1 + x * x) ** 2, lambda x, a, b: 24 * a * x * (1 - x * x) / (1 + x * x) ** 4, ["a", "b"], [2.0, 1.0]),
}
# entries: (function, df/dx, d3f/dx3, parameter names, defaults)


# ------------------------------------------------------------------ indexed models: f(*p) -> array of fixed size

_IDX_BASE = np.arange(1.0, 41.0)


def make_indexed(n, kind):
    base = _IDX_BASE[:n].copy()
    if kind == "affine":

        def idx_affine(a=1.5, b=2.0):
            _tick()
            return a * base + b

        return idx_affine, ["a", "b"], [1.5, 2.0], (lambda a, b: a * base + b)
    if kind == "affine_ca":

        def idx_affine_ca(c=2.0, a=1.5):
            _tick()
            return a * base + c

        return idx_affine_ca, ["c", "a"], [2.0, 1.5], (lambda c, a: a * base + c)
    if kind == "power":

        def idx_power(s=2.0, q=0.5):
            _tick()
            return s * base**q + 1.0

        return idx_power, ["s", "q"], [2.0, 0.5], (lambda s, q: s * base**q + 1.0)

    def idx_three(a=1.0, b=1.0, c=3.0):
        _tick()
        return a * base + b * np.sqrt(base) + c

    return idx_three, ["a", "b", "c"], [1.0, 1.0, 3.0], (lambda a, b, c: a * base + b * np.sqrt(base) + c)


# fixed-size module-level versions (serialisable: source is self-contained apart from numpy)


def idx4(a=1.5, b=2.0):
    return a * np.arange(1.0, 5.0) + b


def idx6(a=1.0, b=1.0, c=3.0):
    return a * np.arange(1.0, 7.0) + b * np.sqrt(np.arange(1.0, 7.0)) + c


# ------------------------------------------------------------------ densities for histogram / unbinned fits


def normal_pdf(x, mu=0.2, sigma=1.3):
    _tick()
    return np.exp(-0.5 * ((x - mu) / sigma) ** 2) / np.sqrt(2.0 * np.pi * sigma**2)


def normal_cdf(x, mu=0.2, sigma=1.3):
    return 0.5 * erf((np.asarray(x, dtype=float) - mu) / (np.sqrt(2.0) * sigma))


def expon_pdf(x, tau=1.5):
    _tick()
    return np.exp(-np.asarray(x, dtype=float) / tau) / tau


def expon_cdf(x, tau=1.5):
    return -np.exp(-np.asarray(x, dtype=float) / tau)


def mix_pdf(x, mu=0.5, sigma=1.0, f=0.7):
    _tick()
    g = np.exp(-0.5 * ((x - mu) / sigma) ** 2) / np.sqrt(2.0 * np.pi * sigma**2)
    return f * g + (1.0 - f) * 0.1 * np.ones_like(np.asarray(x, dtype=float))


def mix_cdf(x, mu=0.5, sigma=1.0, f=0.7):
    x = np.asarray(x, dtype=float)
    return f * 0.5 * erf((x - mu) / (np.sqrt(2.0) * sigma)) + (1.0 - f) * 0.1 * x


DENSITIES = {
    "normal": (normal_pdf, normal_cdf, ["mu", "sigma"], [0.2, 1.3]),
    "expon": (expon_pdf, expon_cdf, ["tau"], [1.5]),
    "mix": (mix_pdf, mix_cdf, ["mu", "sigma", "f"], [0.5, 1.0, 0.7]),
}

"""Driver: ./check <id> [quick|thorough] [--replay path] | selftest-determinism | selftest-sensitivity

exit 0  property held on everything explored (KNOWN-FINDING lines allowed)
exit 1  VIOLATION property=<id> replay=<path>
exit 3  HARNESS-ERROR (never silently 0)
"""
import argparse
import json
import os
import re
import shutil
import subprocess
import sys
import tempfile
import time

import numpy as np

VERIF = os.path.dirname(os.path.dirname(os.path.abspath(__file__)))
PY = "/venv/bin/python"
N_HASHSEEDS = 4


def hashseed_table(root):
    from .core import h64

    shift = int(os.environ.get("KSIM_HASHSEED_SHIFT", "0") or 0)  # selftest only: same runs under other hash seeds
    return [h64(root, "hashseed", k + 100 * shift) % 4294967295 for k in range(N_HASHSEEDS)]


def worker_env(hashseed):
    env = dict(os.environ)
    env["PYTHONHASHSEED"] = str(hashseed)
    for k in ("OPENBLAS_NUM_THREADS", "OMP_NUM_THREADS", "MKL_NUM_THREADS", "NUMEXPR_NUM_THREADS"):
        env[k] = "1"
    env["PYTHONDONTWRITEBYTECODE"] = "1"
    env["MPLBACKEND"] = "Agg"
    pp = [VERIF]
    if os.environ.get("KSIM_REPO_PATH"):
        pp.insert(0, os.environ["KSIM_REPO_PATH"])
    env["PYTHONPATH"] = os.pathsep.join(pp)
    env.pop("KAFE2_VERIF_SIM", None)
    return env


def spawn(job, hashseed, cwd):
    p = subprocess.Popen([PY, "-m", "ksim.worker"], stdin=subprocess.PIPE, stdout=subprocess.PIPE, stderr=subprocess.PIPE,
                         env=worker_env(hashseed), cwd=cwd, text=True)
    p.stdin.write(json.dumps(job))
    p.stdin.close()
    p.stdin = None
    return p


def collect(p, timeout):
    try:
        out, err = p.communicate(timeout=timeout)
    except subprocess.TimeoutExpired:
        p.kill()
        out, err = p.communicate()
        return None, "worker exceeded wall timeout\n" + (err or "")[-2000:]
    if p.returncode != 0:
        return None, "worker exit %s\n%s" % (p.returncode, err[-4000:])
    lines = [ln for ln in out.splitlines() if ln.startswith("{")]
    if not lines:
        return None, "worker produced no result\n" + err[-2000:]
    return json.loads(lines[-1]), err


def root_seed(check, tier, seed):
    from .core import h64

    return h64("kafe2-ksim", check, tier, seed)


def run_batch(check, tier, seed, runs, workers, wall, digests=False, scratch=None):
    """Run `runs` simulated runs over `workers` spawned processes.  Returns (aggregate, harness_errors)."""
    root = root_seed(check, tier, seed)
    hs = hashseed_table(root)
    own_scratch = scratch is None
    if own_scratch:
        scratch = tempfile.mkdtemp(prefix="ksim_")
    procs = []
    t0 = time.time()
    for w in range(workers):
        wd = os.path.join(scratch, "w%d" % w)
        os.makedirs(wd, exist_ok=True)
        job = {"mode": "batch", "check": check, "tier": tier, "root": root, "start": w, "stop": runs, "step": workers, "wall": wall,
               "digests": digests, "scratch": scratch, "wid": w}
        procs.append(spawn(job, hs[w % N_HASHSEEDS], wd))
    agg = {"n": 0, "violations": [], "stats": {}, "probes": {}, "discards": {}, "samples": [], "truncated": False, "sim_time": 0.0,
           "n_ops": 0, "digests": [], "n_nontrivial": 0, "per_machine": {}, "violations_dropped": 0}
    herrs = []
    for w, p in enumerate(procs):
        r, err = collect(p, wall + 420)
        if r is None:
            cur = ""
            try:
                with open(os.path.join(scratch, "w%d" % w, "current_run")) as f:
                    cur = " (died in run index / seed: %s)" % f.read()
            except OSError:
                pass
            herrs.append("worker %d%s: %s" % (w, cur, err))
            continue
        for e in r["harness_errors"]:
            herrs.append("worker %d run %s seed %s:\n%s" % (w, e["idx"], e["seed"], e["trace"]))
        agg["n"] += r["n"]
        if r.get("slowest") and r["slowest"][0] > agg.get("slowest", [0.0])[0]:
            agg["slowest"] = r["slowest"]
        agg["n_ops"] += r["n_ops"]
        agg["sim_time"] += r["sim_time"]
        agg["n_nontrivial"] += r["n_nontrivial"]
        agg["truncated"] = agg["truncated"] or r["truncated"]
        agg["violations_dropped"] += r.get("violations_dropped", 0)
        for key in ("stats", "probes", "discards", "per_machine"):
            for k, v in r[key].items():
                agg[key][k] = agg[key].get(k, 0) + v
        for v in r["violations"]:
            v["hashseed"] = hs[w % N_HASHSEEDS]
            agg["violations"].append(v)
        agg["samples"].extend(r["samples"])
        agg["digests"].extend(r["digests"])
    st = []
    nt = []
    for w in range(workers):
        for lst, pre in ((st, "states"), (nt, "nt")):
            f = os.path.join(scratch, "%s_%d.bin" % (pre, w))
            if os.path.exists(f):
                lst.append(np.fromfile(f, dtype=np.uint64))
    agg["states"] = int(np.unique(np.concatenate(st)).size) if st else 0
    agg["distinct_nontrivial"] = int(np.unique(np.concatenate(nt)).size) if nt else 0
    agg["wall"] = time.time() - t0
    agg["violations"].sort(key=lambda v: v["idx"])
    agg["samples"].sort(key=lambda s: s["idx"])
    agg["hashseeds"] = hs
    if own_scratch:
        shutil.rmtree(scratch, ignore_errors=True)
    return agg, herrs


def parallel_jobs(jobs, width, timeout=1200):
    """Run worker jobs [(job, hashseed)] at most `width` at a time; returns [(result, err)] in order."""
    out = [None] * len(jobs)
    pending = list(enumerate(jobs))
    running = []
    while pending or running:
        while pending and len(running) < width:
            i, (job, hsd) = pending.pop(0)
            d = tempfile.mkdtemp(prefix="ksim_")
            running.append((i, d, spawn(job, hsd, d)))
        i, d, p = running.pop(0)
        out[i] = collect(p, timeout)
        shutil.rmtree(d, ignore_errors=True)
    return out


def one_shot(job, hashseed, timeout=900):
    d = tempfile.mkdtemp(prefix="ksim_")
    try:
        p = spawn(job, hashseed, d)
        return collect(p, timeout)
    finally:
        shutil.rmtree(d, ignore_errors=True)


# ------------------------------------------------------------------------------------------------
# known findings


def load_findings():
    p = os.path.join(VERIF, "known_findings.json")
    if not os.path.exists(p):
        return []
    with open(p) as f:
        return json.load(f).get("findings", [])


def match_finding(findings, prop, fp):
    for e in findings:
        if e.get("status") == "open" and e["property"] == prop and fp is not None and re.fullmatch(e["fingerprint"], fp):
            return e
    return None


# ------------------------------------------------------------------------------------------------


def write_evidence(check, tier, seed, cfg, agg, n_viol, extra_cov=None, wall=None):
    from .checks import EVIDENCE_TEXT

    txt = EVIDENCE_TEXT.get(check, {})
    wall = agg["wall"] if wall is None else wall
    cov = {
        "evaluations": int(agg["n"]),
        "distinct_nontrivial": int(agg["distinct_nontrivial"]),
        "rule": txt.get("rule", "seeded histories; distinct = distinct run event-log digests among non-trivial runs"),
        "samples": agg["samples"][:3],
        "exhaustive": False,
        "runs_per_hour": int(agg["n"] / max(wall, 1e-9) * 3600),
        "seeds_per_hour": int(agg["n"] / max(wall, 1e-9) * 3600),
        "simulated_seconds": agg["sim_time"],
        "operations_executed": int(agg["n_ops"]),
        "states_reached": int(agg["states"]),
        "states_measure": txt.get("states_measure", "distinct cache-state vectors (private attributes read for measurement only)"),
        "fault_kinds_fired": {k: v for k, v in sorted(agg["stats"].items()) if k.startswith("fault_")},
        "op_kinds": {k: v for k, v in sorted(agg["stats"].items()) if k.startswith("op_")},
        "other_counters": {k: v for k, v in sorted(agg["stats"].items()) if not k.startswith(("op_", "fault_"))},
        "reach_probes": dict(sorted(agg["probes"].items())),
        "discarded": agg["discards"],
        "runs_per_machine": agg["per_machine"],
        "wall_cap_truncated": bool(agg["truncated"]),
        "pythonhashseeds": agg.get("hashseeds"),
        "real_vs_stub": txt.get("real_vs_stub", REAL_VS_STUB),
        "workers": cfg.get("workers"),
    }
    if extra_cov:
        cov.update(extra_cov)
    ev = {
        "property_id": check,
        "tier": tier,
        "seed": int(seed),
        "level": cfg["level"],
        "coverage": cov,
        "assumptions": txt.get("assumptions", []),
        "wall_s": float(wall),
        "violations": int(n_viol),
    }
    evdir = os.environ.get("KSIM_EVIDENCE_DIR") or os.path.join(VERIF, "evidence")
    os.makedirs(evdir, exist_ok=True)
    with open(os.path.join(evdir, "%s.json" % check), "w") as f:
        json.dump(ev, f, indent=1, default=str)


REAL_VS_STUB = {
    "real": ["kafe2 (working tree of /repo)", "iminuit", "scipy", "numdifftools", "numpy", "PyYAML", "sympy", "garbage collector (runs only when scheduled)"],
    "stub": ["wall clock (simulated)", "datetime.now/getpass.getuser (fixed)", "uuid4 and np.random (real generators, seeded)",
             "container of weak parent references (seeded iteration order; repo logic unchanged)", "file system behind kafe2's open() (SimFS)",
             "user model/density/graph functions (harness library, counting, armable)"],
}


def cmd_check(check, tier, args):
    from .checks import CHECKS

    if check not in CHECKS:
        print("HARNESS-ERROR unknown check %s" % check)
        return 3
    cfg = dict(CHECKS[check])
    seed = int(os.environ.get("VERIF_SEED", "0") or 0)
    t = cfg[tier]
    runs = args.runs or t["runs"]
    wall = args.wall or t["wall"]
    workers = args.workers or min(16, os.cpu_count() or 4)
    workers = max(N_HASHSEEDS, workers - workers % N_HASHSEEDS)
    cfg["workers"] = workers
    t0 = time.time()
    print("ksim check=%s tier=%s VERIF_SEED=%d runs=%d workers=%d wall_cap=%ds" % (check, tier, seed, runs, workers, wall))
    sys.stdout.flush()
    findings = load_findings()
    known_hits = {}
    rc = 0
    # 1. replay the committed replays of open findings: still failing -> KNOWN-FINDING line
    for e in findings:
        if e["property"] != check or e.get("status") != "open" or not e.get("replay"):
            continue
        r, err = one_shot({"mode": "replay", "path": os.path.join(VERIF, e["replay"])}, 0)
        if r is None:
            print("HARNESS-ERROR replay of finding %s failed: %s" % (e["id"], err))
            return 3
        if r["violation"] is not None and re.fullmatch(e["fingerprint"], r.get("fingerprint") or ""):
            known_hits[e["id"]] = known_hits.get(e["id"], 0) + 1
    # 1b. regression corpus: the committed replays of REPAIRED findings must not violate any more (a fixed entry suppresses nothing)
    reg = [e for e in findings if e["property"] == check and e.get("status") == "fixed" and e.get("replay") and os.path.exists(os.path.join(VERIF, e["replay"]))]
    reg_jobs = []
    for e in reg:
        with open(os.path.join(VERIF, e["replay"])) as f:
            hsd = json.load(f).get("pythonhashseed") or 0
        reg_jobs.append(({"mode": "replay", "path": os.path.join(VERIF, e["replay"])}, hsd))
    # ... and the minimised histories on which independently seeded breaking changes were caught (corpus/<check>/<seeded id>.json): clean on a tree
    # where the property holds, violating again if that kind of change comes back
    cdir = os.path.join(VERIF, "corpus", check)
    for fn in sorted(os.listdir(cdir)) if os.path.isdir(cdir) else []:
        if fn.endswith(".json"):
            with open(os.path.join(cdir, fn)) as f:
                hsd = json.load(f).get("pythonhashseed") or 0
            reg.append({"id": "corpus/" + fn[:-5], "replay": os.path.join("corpus", check, fn)})
            reg_jobs.append(({"mode": "replay", "path": os.path.join(cdir, fn)}, hsd))
    reg_viol = []
    for e, (r, err) in zip(reg, parallel_jobs(reg_jobs, workers)):
        if r is None:
            print("HARNESS-ERROR replay of repaired finding %s failed: %s" % (e["id"], err))
            return 3
        if r["violation"] is not None and match_finding(findings, check, r.get("fingerprint")) is None:
            reg_viol.append((e, r))
    agg, herrs = run_batch(check, tier, seed, runs, workers, wall)
    if herrs:
        for h in herrs[:5]:
            print("HARNESS-ERROR %s" % h)
        write_evidence(check, tier, seed, cfg, agg, 0, wall=time.time() - t0) if agg["n"] else None
        return 3
    # 2. violations: group by class, shrink a few per class, classify against known findings
    new_viol = []
    by_class = {}
    for v in agg["violations"]:
        # a violating run whose (unminimised) fingerprint already matches an open finding is counted as a hit of that finding without
        # being minimised again (the committed replay of the finding was re-validated above); everything else is minimised and classified
        e0 = match_finding(findings, check, v.get("fp"))
        if e0 is not None:
            known_hits[e0["id"]] = known_hits.get(e0["id"], 0) + 1
            continue
        k = (v["case"]["machine"],) + tuple((v["violation"]["property"], v["violation"]["oracle"], v["violation"]["observable"]))
        by_class.setdefault(k + (v.get("tag", ""),), []).append(v)
    n_shrunk = 0
    rdir = os.environ.get("KSIM_REPLAY_DIR") or os.path.join(VERIF, "replays")
    todo = []
    per_class = 3 if tier == "quick" else 6
    for k, vs in sorted(by_class.items()):
        for v in vs[:per_class]:
            todo.append((k, v, os.path.join(rdir, check, "%d.json" % v["seed"])))
    todo = todo[:int(os.environ.get("KSIM_MAX_SHRINK", "48") or 48)]
    # shrink in parallel (each in a fresh interpreter with the hash seed of the failing run), then replay each file
    shr = parallel_jobs([({"mode": "shrink", "case": v["case"], "klass": list(k[1:4]), "path": path, "check": check,
                           "hashseed": v["hashseed"], "max_runs": 400}, v["hashseed"]) for k, v, path in todo], workers)
    for (k, v, path), (r, err) in zip(todo, shr):
        n_shrunk += 1
        if r is None or r["violation"] is None:
            print("HARNESS-ERROR violation of run %d (seed %d) did not reproduce in a fresh process (non-deterministic): %s" % (v["idx"], v["seed"], err))
            return 3
    rep = parallel_jobs([({"mode": "replay", "path": path}, v["hashseed"]) for k, v, path in todo], workers)
    for (k, v, path), (r, err), (rr, err2) in zip(todo, shr, rep):
        if rr is None or rr["violation"] is None or rr["digest"] != r["digest"]:
            print("HARNESS-ERROR replay of %s does not reproduce the minimised violation exactly" % path)
            return 3
        e = match_finding(findings, check, r.get("fingerprint"))
        if e is not None:
            known_hits[e["id"]] = known_hits.get(e["id"], 0) + 1
            try:
                os.remove(path)
            except OSError:
                pass
        else:
            new_viol.append((v, r, path))
    for e in findings:
        if e["id"] in known_hits:
            print("KNOWN-FINDING: property=%s %s [%s; hit %d time(s) in this run]" % (check, e["what"], e["id"], known_hits[e["id"]]))
    for v, r, path in new_viol:
        vj = r["violation"]
        print("VIOLATION property=%s replay=%s" % (check, path))
        print("  machine=%s seed=%d oracle=%s observable=%s ops=%d (shrunk from %d in %d runs)" % (
            v["case"]["machine"], v["seed"], vj["oracle"], vj["observable"], len(r["case"]["ops"]), len(v["case"]["ops"]), r["shrink_runs"]))
        print("  %s" % vj["message"])
        print("  fingerprint=%s" % r.get("fingerprint"))
        rc = 1
    for e, r in reg_viol:
        print("VIOLATION property=%s replay=%s" % (check, os.path.join(VERIF, e["replay"])))
        print("  the recorded history %s violates (again): %s" % (e["id"], r["violation"]["message"]))
        print("  fingerprint=%s" % r.get("fingerprint"))
        rc = 1
    wall_total = time.time() - t0
    extra = {"violating_runs_in_batch": len(agg["violations"]) + agg["violations_dropped"], "violations_minimised": n_shrunk,
             "known_finding_hits": known_hits, "regression_replays_of_repaired_findings_and_corpus": len(reg), "regression_replays_violating": len(reg_viol)}
    write_evidence(check, tier, seed, cfg, agg, len(new_viol) + len(reg_viol), extra_cov=extra, wall=wall_total)
    print("runs=%d nontrivial-distinct=%d states=%d ops=%d wall=%.1fs (%.0f runs/h) violating-runs=%d new=%d known=%s truncated=%s" % (
        agg["n"], agg["distinct_nontrivial"], agg["states"], agg["n_ops"], wall_total, agg["n"] / max(wall_total, 1e-9) * 3600,
        len(agg["violations"]) + agg["violations_dropped"], len(new_viol), dict(known_hits), agg["truncated"]))
    if agg.get("slowest"):
        print("slowest run: %.1fs (run index %d)" % (agg["slowest"][0], agg["slowest"][1]))
    for k, v in sorted(agg["probes"].items()):
        if k.startswith("FAULT-PROBE"):
            print("FAULT-PROBE %s count=%d (report-only: outside every property's quantifier)" % (k[len("FAULT-PROBE_"):], v))
    for k, v in sorted(agg["probes"].items()):
        if v == 0 and tier == "thorough":
            print("WARNING reach probe %s stuck at zero" % k)
    if agg["n"] == 0:
        print("HARNESS-ERROR no run executed")
        return 3
    return rc


def cmd_replay(check, path):
    with open(path) as f:
        rp = json.load(f)
    r, err = one_shot({"mode": "replay", "path": os.path.abspath(path), "events": True}, rp.get("pythonhashseed") or 0)
    if r is None:
        print("HARNESS-ERROR %s" % err)
        return 3
    print("replay digest=%s expected=%s" % (r["digest"], r["expected_digest"]))
    if r["violation"] is None:
        print("no violation on replay")
        return 0
    findings = load_findings()
    e = match_finding(findings, rp.get("check"), r.get("fingerprint"))
    if e is not None:
        print("KNOWN-FINDING: property=%s %s [%s]" % (rp.get("check"), e["what"], e["id"]))
        return 0
    print("VIOLATION property=%s replay=%s" % (rp.get("check"), path))
    print("  %s" % r["violation"]["message"])
    return 1


def main(argv=None):
    ap = argparse.ArgumentParser()
    ap.add_argument("check")
    ap.add_argument("tier", nargs="?", default=os.environ.get("VERIF_TIER") or "quick")
    ap.add_argument("--replay")
    ap.add_argument("--runs", type=int)
    ap.add_argument("--wall", type=int)
    ap.add_argument("--workers", type=int)
    ap.add_argument("--only")
    args = ap.parse_args(argv)
    if args.check.startswith("selftest"):
        from . import selftest

        return selftest.main(args)
    if args.replay:
        return cmd_replay(args.check, args.replay)
    if args.tier not in ("quick", "thorough"):
        print("HARNESS-ERROR unknown tier %r" % args.tier)
        return 3
    return cmd_check(args.check, args.tier, args)


if __name__ == "__main__":
    sys.exit(main())

"""Check table: property id -> legs (machine, property), run budgets and wall caps per tier."""

CHECKS = {
    "C04": {
        "level": "exploration",
        "legs": [("nexus", "C04")],
        "quick": {"runs": 160000, "wall": 75},
        "thorough": {"runs": 4000000, "wall": 1500},
    },
    "C12": {
        "level": "exploration",
        "legs": [("hist", "C12")],
        "quick": {"runs": 160000, "wall": 75},
        "thorough": {"runs": 4000000, "wall": 1500},
    },
    "C02": {
        "level": "exploration",
        "legs": [("cont", "C02")],
        "quick": {"runs": 80000, "wall": 75},
        "thorough": {"runs": 3000000, "wall": 1500},
    },
    "C01": {
        "level": "exploration",
        "legs": [("cost", "C01")],
        "quick": {"runs": 11000, "wall": 70},
        "thorough": {"runs": 400000, "wall": 1500},
    },
    "C10": {
        "level": "exploration",
        "legs": [("ndf", "C10"), ("ndf", "C10"), ("ndf", "C10"), ("multi", "C10")],
        "quick": {"runs": 10000, "wall": 90},
        "thorough": {"runs": 400000, "wall": 1500},
    },
    "C03": {
        "level": "exploration",
        "legs": [("fithist", "C03")],
        "quick": {"runs": 3000, "wall": 80},
        "thorough": {"runs": 100000, "wall": 1800},
    },
    "C19": {
        "level": "fault_enumeration",
        "legs": [("reject", "C19")],
        "quick": {"runs": 320, "wall": 100},
        "thorough": {"runs": 20000, "wall": 1800},
        "selftest_runs": 96,
    },
    "C08": {
        "level": "exploration",
        "legs": [("query", "C08")],
        "quick": {"runs": 2400, "wall": 70},
        "thorough": {"runs": 60000, "wall": 1800},
    },
    "C11": {
        "level": "exploration",
        "legs": [("multi", "C11")],
        "quick": {"runs": 3000, "wall": 75},
        "thorough": {"runs": 100000, "wall": 1800},
    },
    "C09": {
        "level": "exploration",
        "legs": [("io", "C09")],
        "quick": {"runs": 4000, "wall": 75},
        "thorough": {"runs": 100000, "wall": 1800},
    },
}


def leg_of(check, i):
    legs = CHECKS[check]["legs"]
    # a function of the run index alone (not of the worker count); the i // 16 term rotates the legs over the statically
    # strided workers so that a slow leg does not sit on the same few workers
    return legs[(i + i // 16) % len(legs)]


def idx_of(check, i):
    """Structural index handed to the machine's generator (selects fit type / host / regime classes by idx % k):
    counts the runs of that machine, so that every class is reached on every leg, and is decorrelated from the worker."""
    legs = CHECKS[check]["legs"]
    j = i + i // 16
    leg = j % len(legs)
    same = [k for k, l in enumerate(legs) if l[0] == legs[leg][0]]
    return (j // len(legs)) * len(same) + same.index(leg)


EVIDENCE_TEXT = {
    "C09": {
        "rule": "each run = 1-3 objects of one kind (data containers indexed / xy / histogram incl. manual bin heights / unbinned, with up to 4 sources simple / matrix cov / matrix "
                "cor, abs / rel, enabled / disabled, labels; fits xy / indexed / histogram / unbinned with sources incl. model-referenced ones, simple and matrix "
                "constraints abs / rel, fixed / limited parameters, values set through set_all_parameter_values and the keyword form, fitted or not, with or without asymmetric errors, custom fits with user cost functions, cost objects "
                "with add_determinant_cost=False (open finding F-C09-13), model functions as def-source, as library names and as look-alikes of library entries; simple and matrix "
                "parameter constraints; parametric models incl. unbinned; model-function objects) saved with to_file onto a pool of 2 paths of the simulated file system (write-write-read on one path), reloaded through the object's own class "
                "(and the base class), compared under an identical read script; second cycle from_file -> to_file -> from_file compared document by document (1e-12); "
                "save_state / load_state; every fourth group of runs injects I/O faults (ENOSPC after k characters, open failure, short read, failing truncate). "
                "non-trivial = at least one completed save/load cycle.",
        "states_measure": "distinct (object kind, sub-kind, #files, fault?) tuples - the explored dimension is the object configuration and the write history on a path",
        "assumptions": ["acknowledged to_file => readable and equivalent; failed to_file (ENOSPC / open error) => file unconstrained, object unchanged",
                        "failing truncate and short reads are report-only (the writer deliberately ignores a failing truncate; a prefix of a YAML document can be a different valid document)",
                        "byte flips in stored files are not injected (no checksum, no oracle)", "first cycle compared at rtol 1e-7 (YAML matrix text), second at 1e-12",
                        "model functions are self-contained numpy functions (ksim/iolib.py); histogram bin evaluation by name only"],
    },
    "C11": {
        "rule": "each run = 1-3 member fits (xy / indexed with chi2-type costs, histogram and unbinned with nll; overlapping parameter names) + one MultiFit, then "
                "a seeded list of operations issued at the multi-fit OR at a member: set / set_all / fix / release, add_error(fits = i | [i, j] | 'all'), member-level "
                "and multi-level constraints, do_fit on the multi-fit, reads on every party, gc. After EVERY operation: (I1) every shared parameter holds one common "
                "value in the multi-fit and in all members (==); (I2) multi cost == sum of the costs the members report, or, with a shared source (x or y axis, simple or covariance matrix, absolute or relative to identical member data), the "
                "closed-form joint chi2 with V = Vy + Vx o (f'f'^T) on the concatenated data, the shared matrix in every diagonal and off-diagonal block between the sharing "
                "members; members may have a history before the MultiFit is built (set / fix / limit / constraint), own x sources, model-referenced sources, no uncertainty at "
                "all, add_determinant_cost=False, and models with other parameter names and orders; (I3) a "
                "multi-fit of one fit reproduces that fit's do_fit; (I4) after multi.do_fit members report the sub-blocks of the multi-fit result (==). "
                "non-trivial = >=2 operations after construction.",
        "states_measure": "distinct (last operation, #shared sources, fitted?, fixed set, stale bits of the multi-fit graph) tuples",
        "assumptions": ["shared sources between xy / indexed members of equal size; data-relative ones only between members with identical data (kafe2 demands it)",
                        "after a fix / release issued on a MEMBER the counting oracles and do_fit are switched off (how a member's fixed status propagates is unspecified); I1 and the cost invariants stay",
                        "cost invariants are skipped while a member total or the joint covariance is outside the PD, cond<=1e7 domain",
                        "model-relative member sources are kept out of the joint closed form (generated as absolute)"],
    },
    "C08": {
        "level": "exploration",
        "legs": [("query", "C08")],
        "quick": {"runs": 2400, "wall": 70},
        "thorough": {"runs": 60000, "wall": 1800},
    },
    "C11": {
        "level": "exploration",
        "legs": [("multi", "C11")],
        "quick": {"runs": 3000, "wall": 75},
        "thorough": {"runs": 100000, "wall": 1800},
    },
    "C09": {
        "level": "exploration",
        "legs": [("io", "C09")],
        "quick": {"runs": 4000, "wall": 75},
        "thorough": {"runs": 100000, "wall": 1800},
    },
}


def leg_of(check, i):
    legs = CHECKS[check]["legs"]
    # a function of the run index alone (not of the worker count); the i // 16 term rotates the legs over the statically
    # strided workers so that a slow leg does not sit on the same few workers
    return legs[(i + i // 16) % len(legs)]


def idx_of(check, i):
    """Structural index handed to the machine's generator (selects fit type / host / regime classes by idx % k):
    counts the runs of that machine, so that every class is reached on every leg, and is decorrelated from the worker."""
    legs = CHECKS[check]["legs"]
    j = i + i // 16
    leg = j % len(legs)
    same = [k for k, l in enumerate(legs) if l[0] == legs[leg][0]]
    return (j // len(legs)) * len(same) + same.index(leg)


EVIDENCE_TEXT = {
    "C09": {
        "rule": "each run = 1-3 objects of one kind (data containers indexed / xy / histogram incl. manual bin heights / unbinned, with up to 4 sources simple / matrix cov / matrix "
                "cor, abs / rel, enabled / disabled, labels; fits xy / indexed / histogram / unbinned with sources incl. model-referenced ones, simple and matrix "
                "constraints abs / rel, fixed / limited parameters, values set through set_all_parameter_values and the keyword form, fitted or not, with or without asymmetric errors, custom fits with user cost functions, cost objects "
                "with add_determinant_cost=False (open finding F-C09-13), model functions as def-source, as library names and as look-alikes of library entries; simple and matrix "
                "parameter constraints; parametric models incl. unbinned; model-function objects) saved with to_file onto a pool of 2 paths of the simulated file system (write-write-read on one path), reloaded through the object's own class "
                "(and the base class), compared under an identical read script; second cycle from_file -> to_file -> from_file compared document by document (1e-12); "
                "save_state / load_state; every fourth group of runs injects I/O faults (ENOSPC after k characters, open failure, short read, failing truncate). "
                "non-trivial = at least one completed save/load cycle.",
        "states_measure": "distinct (object kind, sub-kind, #files, fault?) tuples - the explored dimension is the object configuration and the write history on a path",
        "assumptions": ["acknowledged to_file => readable and equivalent; failed to_file (ENOSPC / open error) => file unconstrained, object unchanged",
                        "failing truncate and short reads are report-only (the writer deliberately ignores a failing truncate; a prefix of a YAML document can be a different valid document)",
                        "byte flips in stored files are not injected (no checksum, no oracle)", "first cycle compared at rtol 1e-7 (YAML matrix text), second at 1e-12",
                        "model functions are self-contained numpy functions (ksim/iolib.py); histogram bin evaluation by name only"],
    },
    "C11": {
        "rule": "each run = 1-3 member fits (xy / indexed with chi2-type costs, histogram and unbinned with nll; overlapping parameter names) + one MultiFit, then "
                "a seeded list of operations issued at the multi-fit OR at a member: set / set_all / fix / release, add_error(fits = i | [i, j] | 'all'), member-level "
                "and multi-level constraints, do_fit on the multi-fit, reads on every party, gc. After EVERY operation: (I1) every shared parameter holds one common "
                "value in the multi-fit and in all members (==); (I2) multi cost == sum of the costs the members report, or, with a shared source (x or y axis, simple or covariance matrix, absolute or relative to identical member data), the "
                "closed-form joint chi2 with V = Vy + Vx o (f'f'^T) on the concatenated data, the shared matrix in every diagonal and off-diagonal block between the sharing "
                "members; members may have a history before the MultiFit is built (set / fix / limit / constraint), own x sources, model-referenced sources, no uncertainty at "
                "all, add_determinant_cost=False, and models with other parameter names and orders; (I3) a "
                "multi-fit of one fit reproduces that fit's do_fit; (I4) after multi.do_fit members report the sub-blocks of the multi-fit result (==). "
                "non-trivial = >=2 operations after construction.",
        "states_measure": "distinct (last operation, #shared sources, fitted?, fixed set, stale bits of the multi-fit graph) tuples",
        "assumptions": ["member-level operations are generated only after the multi-fit exists (constructing a MultiFit re-initialises the members' fitters)",
                        "shared sources: y axis, absolute, simple, between xy / indexed members of equal size (x-axis and data-relative shared sources are not generated)",
                        "cost invariants are skipped while a member total or the joint covariance is outside the PD, cond<=1e7 domain",
                        "open finding F-C11-1 (member constraints dropped with a shared source) is matched by a semantic tag; such configurations are generated in 1/3 of the sharing runs"],
    },
    "C08": {
        "rule": "each run = one fitted problem (xy / indexed / histogram / unbinned stratified; iminuit and scipy; sources incl. x-errors, correlations and "
                "model-referenced ones; optional constraint, fixed parameter, wide limits; optimum interior) followed by a seeded sequence with repetition of post-fit "
                "queries: parameter_cov_mat, parameter_cor_mat, parameter_errors, minimizer hessian/hessian_inv, asymmetric_parameter_errors, _fitter.profile "
                "(low/high/sigma/cl/size/subtract_min/arrows variants incl. requests kafe2 rejects: range on the wrong side of the optimum, cl > 1), _fitter.contour, "
                "ContoursProfiler.get_profile/get_contours, XYFit.error_band, report, get_result_dict (with and without asymmetric errors), to_file (both), "
                "eval_model_function at other support points, Plot (thorough tier), gc. After EVERY query (also one that raised): parameter values / cost / symmetric uncertainties / did_fit unchanged "
                "up to the minimizer tolerance, fixed parameters bitwise, minimizer copy == graph copy (1e-9), and the same query asked again (directly or later in the sequence) gives the same "
                "answer. non-trivial = a converged well-posed fit and >=2 queries.",
        "states_measure": "distinct (query kind, stale/frozen bits of all graph nodes, fixed set) tuples after queries",
        "assumptions": ["ill-posed fits (uncertainty larger than |value|+1, non-converged, optimum on a limit) are discarded before any oracle is consulted",
                        "profiles / contours / asymmetric errors are skipped for the iterative treatment with dynamic errors (kafe2 documents that it switches algorithm)",
                        "a scipy fit whose result is not a fixed point of minimize() on a sibling fit is discarded (convergence of do_fit is C06's subject)",
                        "scipy: contours and profiles of single-parameter / limited fits in the thorough tier only; contours on Poisson likelihoods never (> 5 min per contour observed)",
                        "open finding F-C08-6 (non-converged mnprofile scan point) matched by a semantic tag"],
    },
    "C19": {
        "rule": "hosts: fits (xy/indexed/histogram/unbinned), data containers (indexed/xy), histogram containers, graphs, multi-fits of two Gaussian members. A valid base history (mutators + reads) is "
                "generated; in the enumerated regime (every second run, base length <= 8) EVERY applicable catalogue kind R1-R10 is inserted at EVERY position, one "
                "fault per derived history (kinds x positions exhaustive per base history, counted as derived_histories); in the sampled regime longer histories "
                "get 1-3 faults at seeded positions. Each malformed call must raise; a lock-step twin executes the same history without the faults and every "
                "subsequent read must agree (rtol 1e-12; tolerance tier after a final do_fit); histogram containers and graphs must still accept a valid edit "
                "afterwards. The catalogue contains small-magnitude variants (-1e-12, 1+1e-9, 1e-10-scale and 1e-7-asymmetric matrices), partial application (valid "
                "keyword first), wrong sizes / axes / member indices through MultiFit, and a cycle that closes through a second Nexus with a same-named node. "
                "Constructor-time kinds (R7: EVERY reserved name of the fit class, model function as plain function and as model-function object; R8 Poisson data; "
                "R9 unsorted edges) are checked for 'raises'. evaluations = base histories; "
                "distinct = distinct event-log digests.",
        "states_measure": "distinct (host, catalogue kind, call, position, history length) tuples exercised",
        "assumptions": ["base histories are sampled, the (kind x position) insertion per base history is exhaustive in the enumerated regime",
                        "reads of uncertainty-dependent observables are skipped while the twin's configuration is outside the PD domain",
                        "unnamed sources are not addressed by disable/enable in the container host (their generated names differ between the two objects)"],
    },
    "C03": {
        "rule": "each run = one real fit (xy / indexed / histogram / unbinned stratified; iminuit and scipy; nonlinear and iterative dynamic errors) "
                "executing a seeded history of public mutators (sources via fit or fit.data_container, disable/enable, constraints, set/fix/release/limit, "
                "data replacement incl. containers that bring their own sources, parameter_errors setter, do_fit with optional simulated clock jump and optionally "
                "followed by fix / release / limit + covariance-type reads, gc, scripted name collisions) interleaved with reads of "
                "every public read-only property found by introspection (read density 0.3-3 per mutator, repeated reads, reads right before each mutator), "
                "get_result_dict and report. Every read is judged by a twin: class A (functions of configuration and current parameters) against a NEW fit "
                "that receives the configuration mutators only, is set to the same parameter values and is asked for that observable first (rtol 1e-9); "
                "class B (minimizer-derived) against a NEW fit that receives all mutators incl. do_fit and no reads (minimizer tolerance tier), while they are "
                "the results of the last fit. A read must not move parameter_values; a move within the minimizer tolerance is accepted only if the graph and the "
                "minimizer hold the same point afterwards. non-trivial = >=3 mutators, >=2 reads after mutators, >=2 distinct cache-state vectors.",
        "states_measure": "distinct vectors of (stale, frozen) over all graph nodes + container total-cache flags + model stale flag + did_fit + loaded-result flag",
        "assumptions": ["PD well-conditioned totals; reads of uncertainty-dependent observables are skipped while the configuration is outside that domain",
                        "a do_fit that raises or leaves the domain ends the run as discarded", "unlimit only for limited parameters, release only for fixed ones",
                        "data replacement only in histories without model-referenced sources", "object-valued properties (data_container, model_function, ...) are listed as not compared",
                        "scipy asymmetric errors are read only for unlimited fits with >= 2 free parameters and the nonlinear algorithm (elsewhere: tens of seconds per call; M-QUERY thorough tier)",
                        "histogram fits: model-relative sources share open finding F-C01-1 with the twin, so only their history dimension is judged here"],
    },
    "C10": {
        "rule": "fresh-replay scripts as in C01 with the counting events emphasised (fix, release, fix again, fix(name, value), simple and n-parameter "
                "matrix constraints, calls kafe2 rejects (unknown names) inside the history, do_fit before the observation in a third of the runs - then the formulas "
                "are checked at the fitted point as well); observed first on a fresh fit: ndf (integer ==), "
                "goodness_of_fit, chi2_probability, result dict ndf and gof/ndf, against the counting model and the closed forms "
                "(GoF = cost - saturated cost without determinant; probability = chi2.sf(cost without determinant, ndf)). Multi-fit legs (1/4 of the runs) are added by M-MULTI: ndf, goodness of fit (also with shared sources) and chi2 probability are read at the "
                "end of every history. "
                "non-trivial = >=1 probe in the domain and >=4 ops; distinct = distinct event-log digests.",
        "states_measure": "distinct declared configurations (as C01)",
        "assumptions": ["domain restrictions of C01", "Gaussian-approximation GoF additionally needs V+diag(data) positive definite (saturated point)",
                        "a do_fit that raises discards the case (fit success is not C10's subject)",
                        "HistFit model-relative sources are mirrored as kafe2 applies them (deviation is C01's finding F-C01-1)"],
    },
    "C01": {
        "rule": "each run = fit type (xy/indexed/histogram/unbinned, stratified) x built-in cost identifier x data set x model family + a seeded "
                "script of mutators, in 30% of the runs interleaved with reads (sources simple/matrix, abs/rel, data/model reference, x/y axis, correlations, via the fit or via "
                "fit.data_container, pre-loaded containers, disable/enable, constraints of all four forms, set/fix/limit, gc, scripted name collisions; "
                "special orders: model-referenced source first / only, all disabled but one, source after parameters moved, data replaced by a container with own "
                "sources on fits with and without uncertainties, parameters moved while a source is disabled; cost objects with add_determinant_cost=False). For each of 2-5 probe points a "
                "FRESH fit replays the script, set_all_parameter_values(p) (skipped if the script has already moved to p), and cost_function_value is compared with the closed-form "
                "-2lnL; sibling fresh replays read total_cov_mat / total_error / model first. non-trivial = >=1 probe in the domain and >=4 ops; "
                "distinct = distinct event-log digests. The ranges 'all data sets x all model functions' are sampled by the generator (property-based "
                "sampling, not schedule search).",
        "states_measure": "distinct declared configurations: (fit type, effective cost, per-source (enabled, relative, type, reference, axis), #constraints, fixed set, implicit-no-errors flag)",
        "assumptions": ["PD, cond<=1e7 totals only; Poisson-type costs only with positive model", "xy Poisson fits use integer x (kafe2 applies the Poisson data check to x as well)",
                        "numeric x->y slope: reference uses the analytic slope, tolerance = effect of the documented step's discretisation bound (sign patterns per point)",
                        "histogram quadrature rules (simpson/trapezoid/rectangle): model taken from a sibling fresh replay (accuracy of the rule is C13)",
                        "custom cost functions are outside 'built-in'"],
    },
    "C02": {
        "rule": "each run = one container (indexed / xy / histogram / indexed-, xy-, histogram-parametric-model; kinds stratified over run "
                "index) + seeded op list of add_error / add_matrix_error (cov | cor+err, abs | rel, scalar | vector, corr in {0,.3,.75,1}, axis as "
                "0/1/'x'/'y'), disable / enable, value changes (data, x, y, fill, rebin, model parameters, model x), reads (err, cov_mat, cor_mat, "
                "cov_mat_inverse, total error object; covariance and inverse read at the end of every run), gc and scripted name collisions; 12% of the runs at the 1e-5 scale "
                "('units'); reference = list of sources -> sum (sigma sigma^T) o rho. "
                "non-trivial = >=3 mutators, >=1 source, >=1 read after a mutator; distinct = distinct event-log digests among those.",
        "states_measure": "distinct (kind, total cached?, per-source (enabled, relative, type), model stale?, pending entries?) tuples",
        "assumptions": ["matrix sources are generated symmetric PSD, correlation matrices valid", "UnbinnedContainer rejects sources by design and is not a host",
                        "rebin keeps the bin count when sources exist", "inverse is only demanded when cond(V) <= 1e8"],
    },
    "C12": {
        "rule": "each run = seeded constructor variant (n_bins+range | edges | inner edges+range | with fill_data) + seeded op list of "
                "fill batches (incl. empty, scalars, duplicates, values exactly on first/inner/last edges, far outside), reads of "
                "data/underflow/overflow/n_entries/raw_data/edges in any order, rebins (non-uniform, repeated edges, other bin count), "
                "rebins that kafe2 rejects (edges not ascending) inside the history, optional final set_bins read-back; reference = multiset + half-open interval counting. non-trivial = >=3 mutators, "
                ">=1 read after a mutator, >=1 entry; distinct = distinct event-log digests among those.",
        "states_measure": "distinct (processed?, unprocessed?, manual?, n_bins) tuples",
        "assumptions": ["finite entries only", "no fault kind applies to an in-memory container: the explored dimension is the history (batching, read placement, rebins)",
                        "an operation that does not return within 20 s of wall time is reported as oracle=no-return (runs take milliseconds)",
                        "set_bins is only read back; that fill/rebin are refused afterwards is kafe2's documented choice"],
    },
    "C04": {
        "rule": "each run = seeded swarm config + seeded op list (graph construction, assignments, reads, freeze/unfreeze, "
                "replacements, element assignment incl. negative indices, dependency additions incl. lists with a late cycle-closing entry (history continues after the "
                "rejection in Nexus mode), named replacement / add_function / add_alias, Empty placeholders created by add_function and filled with replace_if_empty, "
                "drops+gc, armed function failures) executed on real "
                "kafe2 nexus nodes and on the from-scratch reference evaluator. non-trivial = >=3 mutators, >=1 read after a "
                "mutator and >=2 distinct (stale,frozen,edges) state vectors; distinct = distinct event-log digests among those.",
        "states_measure": "distinct tuples of (node kind, stale, frozen) over all nodes + edge lists",
        "assumptions": [
            "freeze is generated as read-then-freeze (the only unambiguous meaning of 'the value it had when it was frozen')",
            "Parameter nodes are never frozen; add_dependency targets are Function/Alias nodes",
            "call-count bound is applied to successful evaluations; a failed evaluation does not count as 'last evaluation'",
            "when several inputs fail, the exception type of any failing node below the one read is accepted (evaluation order is not part of the statement)",
            "an operation that does not return within 20 s of wall time is reported as oracle=no-return (runs take milliseconds)",
            "sampling, not enumeration: a clean batch is evidence, not proof",
        ],
    },
}

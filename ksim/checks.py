"""Check table: property id -> legs (machine, property), run budgets and wall caps per tier."""

CHECKS = {
    "C04": {
        "level": "exploration",
        "legs": [("nexus", "C04")],
        "quick": {"runs": 160000, "wall": 75},
        "thorough": {"runs": 4000000, "wall": 1500},
    },
    "C12": {
        "level": "exploration",
        "legs": [("hist", "C12")],
        "quick": {"runs": 160000, "wall": 75},
        "thorough": {"runs": 4000000, "wall": 1500},
    },
    "C02": {
        "level": "exploration",
        "legs": [("cont", "C02")],
        "quick": {"runs": 80000, "wall": 75},
        "thorough": {"runs": 3000000, "wall": 1500},
    },
}


def leg_of(check, i):
    legs = CHECKS[check]["legs"]
    return legs[i % len(legs)]


EVIDENCE_TEXT = {
    "C02": {
        "rule": "each run = one container (indexed / xy / histogram / indexed-, xy-, histogram-parametric-model; kinds stratified over run "
                "index) + seeded op list of add_error / add_matrix_error (cov | cor+err, abs | rel, scalar | vector, corr in {0,.3,.75,1}, axis as "
                "0/1/'x'/'y'), disable / enable, value changes (data, x, y, fill, rebin, model parameters, model x), reads (err, cov_mat, cor_mat, "
                "cov_mat_inverse, total error object), gc and scripted name collisions; reference = list of sources -> sum (sigma sigma^T) o rho. "
                "non-trivial = >=3 mutators, >=1 source, >=1 read after a mutator; distinct = distinct event-log digests among those.",
        "states_measure": "distinct (kind, total cached?, per-source (enabled, relative, type), model stale?, pending entries?) tuples",
        "assumptions": ["matrix sources are generated symmetric PSD, correlation matrices valid", "UnbinnedContainer rejects sources by design and is not a host",
                        "rebin keeps the bin count when sources exist", "inverse is only demanded when cond(V) <= 1e8"],
    },
    "C12": {
        "rule": "each run = seeded constructor variant (n_bins+range | edges | inner edges+range | with fill_data) + seeded op list of "
                "fill batches (incl. empty, scalars, duplicates, values exactly on first/inner/last edges, far outside), reads of "
                "data/underflow/overflow/n_entries/raw_data/edges in any order, rebins (non-uniform, repeated edges, other bin count), "
                "optional final set_bins read-back; reference = multiset + half-open interval counting. non-trivial = >=3 mutators, "
                ">=1 read after a mutator, >=1 entry; distinct = distinct event-log digests among those.",
        "states_measure": "distinct (processed?, unprocessed?, manual?, n_bins) tuples",
        "assumptions": ["finite entries only", "no fault kind applies to an in-memory container: the explored dimension is the history (batching, read placement, rebins)",
                        "set_bins is only read back; that fill/rebin are refused afterwards is kafe2's documented choice"],
    },
    "C04": {
        "rule": "each run = seeded swarm config + seeded op list (graph construction, assignments, reads, freeze/unfreeze, "
                "replacements, element assignment, dependency additions, drops+gc, armed function failures) executed on real "
                "kafe2 nexus nodes and on the from-scratch reference evaluator. non-trivial = >=3 mutators, >=1 read after a "
                "mutator and >=2 distinct (stale,frozen,edges) state vectors; distinct = distinct event-log digests among those.",
        "states_measure": "distinct tuples of (node kind, stale, frozen) over all nodes + edge lists",
        "assumptions": [
            "freeze is generated as read-then-freeze (the only unambiguous meaning of 'the value it had when it was frozen')",
            "Parameter nodes are never frozen; add_dependency targets are Function/Alias nodes",
            "call-count bound is applied to successful evaluations; a failed evaluation does not count as 'last evaluation'",
            "sampling, not enumeration: a clean batch is evidence, not proof",
        ],
    },
}

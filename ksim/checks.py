"""Check table: property id -> legs (machine, property), run budgets and wall caps per tier."""

CHECKS = {
    "C04": {
        "level": "exploration",
        "legs": [("nexus", "C04")],
        "quick": {"runs": 160000, "wall": 75},
        "thorough": {"runs": 4000000, "wall": 1500},
    },
}


def leg_of(check, i):
    legs = CHECKS[check]["legs"]
    return legs[i % len(legs)]


EVIDENCE_TEXT = {
    "C04": {
        "rule": "each run = seeded swarm config + seeded op list (graph construction, assignments, reads, freeze/unfreeze, "
                "replacements, element assignment, dependency additions, drops+gc, armed function failures) executed on real "
                "kafe2 nexus nodes and on the from-scratch reference evaluator. non-trivial = >=3 mutators, >=1 read after a "
                "mutator and >=2 distinct (stale,frozen,edges) state vectors; distinct = distinct event-log digests among those.",
        "states_measure": "distinct tuples of (node kind, stale, frozen) over all nodes + edge lists",
        "assumptions": [
            "freeze is generated as read-then-freeze (the only unambiguous meaning of 'the value it had when it was frozen')",
            "Parameter nodes are never frozen; add_dependency targets are Function/Alias nodes",
            "call-count bound is applied to successful evaluations; a failed evaluation does not count as 'last evaluation'",
            "sampling, not enumeration: a clean batch is evidence, not proof",
        ],
    },
}

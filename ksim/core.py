"""ksim core: seeds, PRNG streams, canonicalisation, event log, violations, machine base.

One integer (VERIF_SEED) decides everything.  root = H("kafe2-ksim", check id, tier, VERIF_SEED);
run i uses seed_i = H(root, i); inside a run independent streams are derived by name.
Logging never draws from a PRNG and never reads a clock.
"""
import hashlib
import json
import math
import random
import struct

import numpy as np


def h64(*parts):
    """Stable 63-bit hash of the string forms of *parts* (independent of PYTHONHASHSEED)."""
    m = hashlib.sha256()
    for p in parts:
        m.update(str(p).encode("utf-8"))
        m.update(b"\x1f")
    return int.from_bytes(m.digest()[:8], "big") >> 1


class Streams(object):
    """Named independent PRNG streams derived from one run seed."""

    def __init__(self, seed):
        self.seed = int(seed)
        self._c = {}

    def __call__(self, name):
        r = self._c.get(name)
        if r is None:
            r = self._c[name] = random.Random(h64(self.seed, name))
        return r


# ---------------------------------------------------------------------------------------------
# canonical form of values (for digests, replay files and comparison reports)


def fhex(x):
    x = float(x)
    if x != x:
        return "nan"
    return x.hex()


def canon(x):
    """JSON-serialisable canonical form; floats as IEEE hex so digests are bit-exact."""
    if x is None or isinstance(x, (bool, str)):
        return x
    if isinstance(x, (int, np.integer)):
        return int(x)
    if isinstance(x, (float, np.floating)):
        return fhex(x)
    if isinstance(x, np.ndarray):
        if x.dtype == object:
            return ["obj", [canon(v) for v in x.tolist()]]
        return ["nd", list(x.shape), [canon(v) for v in x.ravel().tolist()]]
    if isinstance(x, (list, tuple)):
        return [canon(v) for v in x]
    if isinstance(x, dict):
        return {str(k): canon(x[k]) for k in sorted(x, key=str)}
    if isinstance(x, BaseException):
        return ["exc", type(x).__name__]
    if isinstance(x, np.bool_):
        return bool(x)
    return ["repr", type(x).__name__]


def digest_of(obj):
    return hashlib.sha256(json.dumps(canon(obj), sort_keys=True, separators=(",", ":")).encode()).hexdigest()


class EventLog(object):
    """Per-run event log: records (step, op, outcome, result-digest); chained digest."""

    def __init__(self, seed, keep=True):
        self._h = hashlib.sha256()
        self._h.update(("seed=%d" % seed).encode())
        self.records = [] if keep else None
        self.n = 0

    def add(self, op, outcome, result=None):
        rec = [self.n, op, outcome, canon(result)]
        s = json.dumps(rec, sort_keys=True, separators=(",", ":"), default=str)
        self._h.update(s.encode())
        if self.records is not None:
            self.records.append(rec)
        self.n += 1

    def digest(self):
        return self._h.hexdigest()


class Violation(Exception):
    """A property violation detected by an oracle.  Carries everything needed for the report."""

    def __init__(self, prop, oracle, observable, message, step=None, expected=None, actual=None, extra=None):
        Exception.__init__(self, message)
        self.prop = prop
        self.oracle = oracle
        self.observable = observable
        self.message = message
        self.step = step
        self.expected = expected
        self.actual = actual
        self.extra = extra or {}

    def klass(self):
        """Violation class used by the shrinker: same property, oracle and observable."""
        return (self.prop, self.oracle, self.observable)

    def to_json(self):
        return {
            "property": self.prop,
            "oracle": self.oracle,
            "observable": self.observable,
            "message": self.message,
            "step": self.step,
            "expected": canon(self.expected),
            "actual": canon(self.actual),
            "extra": canon(self.extra),
        }


class HarnessError(Exception):
    """Raised for failures of the harness itself (never reported as VIOLATION, never exit 0)."""


class Discard(Exception):
    """Raised when a generated case falls outside the property's domain (counted, never pass/fail)."""

    def __init__(self, reason):
        Exception.__init__(self, reason)
        self.reason = reason


class RunResult(object):
    __slots__ = ("violation", "digest", "stats", "states", "nontrivial", "probes", "discard", "n_ops", "sim_time", "records", "derived_case")

    def __init__(self):
        self.violation = None
        self.digest = None
        self.stats = {}
        self.states = set()
        self.nontrivial = False
        self.probes = {}
        self.discard = None
        self.n_ops = 0
        self.sim_time = 0.0
        self.records = None
        self.derived_case = None

    def bump(self, key, n=1):
        self.stats[key] = self.stats.get(key, 0) + n

    def probe(self, key, n=1):
        self.probes[key] = self.probes.get(key, 0) + n


class Machine(object):
    """Base class of simulation machines.

    generate(seed, tier, idx) -> case (plain JSON dict: {"machine", "seed", "knobs", "ops"})
    execute(case, world, res) -> None; raises Violation; fills res (stats, states, probes).
    simplify(op) -> iterable of simpler ops (for the shrinker).
    """

    name = "?"
    properties = ()

    def generate(self, seed, tier, idx):
        raise NotImplementedError

    def execute(self, case, world, res, log):
        raise NotImplementedError

    def simplify(self, op):
        return ()

    def simplify_knobs(self, knobs):
        return ()


# ---------------------------------------------------------------------------------------------
# float comparison helpers shared by oracles


def same_float(a, b):
    a = float(a)
    b = float(b)
    if a != a and b != b:
        return True
    return a == b


def values_equal_exact(a, b):
    """Bitwise (value) equality of nested tuple/list/ndarray/float structures; nan == nan."""
    if isinstance(a, np.ndarray) or isinstance(b, np.ndarray):
        try:
            a = np.asarray(a)
            b = np.asarray(b)
        except Exception:
            return False
        if a.shape != b.shape:
            return False
        if a.dtype == object or b.dtype == object:
            return all(values_equal_exact(x, y) for x, y in zip(a.ravel().tolist(), b.ravel().tolist()))
        return bool(np.array_equal(a, b, equal_nan=True))
    if isinstance(a, (tuple, list)) and isinstance(b, (tuple, list)):
        return len(a) == len(b) and all(values_equal_exact(x, y) for x, y in zip(a, b))
    if isinstance(a, (tuple, list)) or isinstance(b, (tuple, list)):
        return False
    if a is None or b is None:
        return a is None and b is None
    if isinstance(a, (int, float, np.floating, np.integer)) and isinstance(b, (int, float, np.floating, np.integer)):
        return same_float(a, b)
    return a == b


def allclose(a, b, rtol, atol=0.0):
    a = np.asarray(a, dtype=float)
    b = np.asarray(b, dtype=float)
    if a.shape != b.shape:
        return False
    return bool(np.allclose(a, b, rtol=rtol, atol=atol, equal_nan=True))


def is_finite(x):
    try:
        return bool(np.all(np.isfinite(np.asarray(x, dtype=float))))
    except Exception:
        return False


def fmt_short(x, n=6):
    try:
        a = np.asarray(x, dtype=float)
        if a.ndim == 0:
            return "%.12g" % float(a)
        flat = a.ravel()
        s = ", ".join("%.8g" % v for v in flat[:n])
        if flat.size > n:
            s += ", ...(%d)" % flat.size
        return "[" + s + "]"
    except Exception:
        return repr(x)[:80]

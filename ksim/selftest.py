"""Proof obligations on the simulator itself (DESIGN 3.10).

selftest-determinism [--only C04] : every seed twice in different processes, at worker counts 4 and 16, under
    shifted PYTHONHASHSEED tables, and a sample in one fresh interpreter per seed; event-log digests must be equal.
selftest-sensitivity [--only C04] : hand-written mutants of kafe2 in a scratch copy; the quick tier must report a
    violation of the right property for each.
"""
import json
import os
import shutil
import subprocess
import sys
import tempfile
import time

VERIF = os.path.dirname(os.path.dirname(os.path.abspath(__file__)))


def determinism(only, n):
    from . import main as M
    from .checks import CHECKS

    bad = 0
    report = {}
    for check in sorted(CHECKS):
        if only and check not in only:
            continue
        n_c = n or CHECKS[check].get("selftest_runs", 400)
        t0 = time.time()
        os.environ.pop("KSIM_HASHSEED_SHIFT", None)
        a, e1 = M.run_batch(check, "quick", 12345, n_c, 4, 3000, digests=True)
        os.environ["KSIM_HASHSEED_SHIFT"] = "1"
        b, e2 = M.run_batch(check, "quick", 12345, n_c, 16, 3000, digests=True)
        os.environ["KSIM_HASHSEED_SHIFT"] = "2"
        c, e3 = M.run_batch(check, "quick", 12345, n_c, 8, 3000, digests=True)
        os.environ.pop("KSIM_HASHSEED_SHIFT", None)
        if e1 or e2 or e3:
            print("HARNESS-ERROR determinism %s: %s" % (check, (e1 + e2 + e3)[0][:2000]))
            bad += 1
            continue
        da, db, dc = dict(map(tuple, a["digests"])), dict(map(tuple, b["digests"])), dict(map(tuple, c["digests"]))
        diff = [i for i in da if da[i] != db.get(i) or da[i] != dc.get(i)]
        # fresh interpreter per seed for a sample: a batch of exactly one run each
        fresh_bad = []
        root = M.root_seed(check, "quick", 12345)
        hs = M.hashseed_table(root)
        sample = sorted(da)[:: max(1, len(da) // 12)][:12]
        procs = []
        for i in sample:
            d = tempfile.mkdtemp(prefix="ksim_")
            job = {"mode": "batch", "check": check, "tier": "quick", "root": root, "start": i, "stop": i + 1, "step": 1, "wall": 600,
                   "digests": True, "scratch": None, "wid": 0}
            procs.append((i, d, M.spawn(job, hs[(i + 3) % len(hs)], d)))
        for i, d, p in procs:
            r, err = M.collect(p, 900)
            shutil.rmtree(d, ignore_errors=True)
            if r is None or not r["digests"] or r["digests"][0][1] != da[i]:
                fresh_bad.append(i)
        ok = not diff and not fresh_bad and len(da) == n_c
        report[check] = {"seeds": len(da), "mismatch": diff[:10], "fresh_mismatch": fresh_bad, "wall": time.time() - t0}
        print("determinism %s: %d seeds x3 (workers 4/16/8, 3 hash-seed tables) + %d fresh interpreters: %s (%.0fs)" % (
            check, len(da), len(sample), "OK" if ok else "MISMATCH %r %r" % (diff[:10], fresh_bad), time.time() - t0))
        sys.stdout.flush()
        if not ok:
            bad += 1
    os.makedirs(os.path.join(VERIF, "selftest"), exist_ok=True)
    if not only:
        with open(os.path.join(VERIF, "selftest", "determinism.json"), "w") as f:
            json.dump(report, f, indent=1, sort_keys=True)
    return 1 if bad else 0


def make_mutant(scratch, mut):
    """Copy /repo/kafe2 (or KSIM_REPO_PATH/kafe2) without tests and apply one textual mutation."""
    import kafe2

    src = os.path.dirname(os.path.abspath(kafe2.__file__))
    dst = os.path.join(scratch, "kafe2")
    shutil.copytree(src, dst, ignore=shutil.ignore_patterns("test", "__pycache__", "*.pyc"))
    p = os.path.join(dst, mut["file"])
    with open(p) as f:
        s = f.read()
    if s.count(mut["old"]) < 1:
        raise RuntimeError("mutant %s: pattern not found in %s" % (mut["name"], mut["file"]))
    s = s.replace(mut["old"], mut["new"], mut.get("count", 1))
    with open(p, "w") as f:
        f.write(s)
    for extra in mut.get("also", []):
        p2 = os.path.join(dst, extra["file"])
        with open(p2) as f:
            s2 = f.read()
        if s2.count(extra["old"]) < 1:
            raise RuntimeError("mutant %s: extra pattern not found in %s" % (mut["name"], extra["file"]))
        with open(p2, "w") as f:
            f.write(s2.replace(extra["old"], extra["new"], 1))


def sensitivity(only, names=None):
    from .mutants import MUTANTS

    results = {}
    bad = 0
    for check in sorted(MUTANTS):
        if only and check not in only:
            continue
        for mut in MUTANTS[check]:
            if names and mut["name"] not in names:
                continue
            scratch = tempfile.mkdtemp(prefix="ksim_mut_")
            t0 = time.time()
            try:
                try:
                    make_mutant(scratch, mut)
                except RuntimeError as e:
                    print("sensitivity %s %-45s BROKEN-MUTANT %s" % (check, mut["name"], e))
                    bad += 1
                    continue
                env = dict(os.environ)
                env["KSIM_REPO_PATH"] = scratch
                env["KSIM_EVIDENCE_DIR"] = os.path.join(scratch, "evidence")
                env["KSIM_REPLAY_DIR"] = os.path.join(scratch, "replays")
                cmd = [os.path.join(VERIF, "check"), check, "quick"]
                if mut.get("runs"):
                    cmd += ["--runs", str(mut["runs"])]
                p = subprocess.run(cmd, env=env, stdout=subprocess.PIPE, stderr=subprocess.STDOUT, text=True, timeout=3000)
                viol = [ln for ln in p.stdout.splitlines() if ln.startswith("VIOLATION property=%s " % check)]
                caught = p.returncode == 1 and bool(viol)
                msg = [ln.strip() for ln in p.stdout.splitlines() if ln.startswith("  ") and "oracle=" in ln][:1]
                results.setdefault(check, []).append({"mutant": mut["name"], "caught": caught, "exit": p.returncode, "wall": time.time() - t0,
                                                      "first": msg})
                print("sensitivity %s %-45s %s (exit %d, %.0fs) %s" % (check, mut["name"], "CAUGHT" if caught else "MISSED", p.returncode,
                                                                      time.time() - t0, msg[0] if msg else ""))
                if not caught:
                    bad += 1
                    print("\n".join(p.stdout.splitlines()[-8:]))
            finally:
                shutil.rmtree(scratch, ignore_errors=True)
            sys.stdout.flush()
    os.makedirs(os.path.join(VERIF, "selftest"), exist_ok=True)
    if not names:
        path = os.path.join(VERIF, "selftest", "sensitivity.json")
        old = {}
        if os.path.exists(path):
            with open(path) as f:
                old = json.load(f)
        old.update(results)
        with open(path, "w") as f:
            json.dump(old, f, indent=1, sort_keys=True)
    return 1 if bad else 0


def main(args):
    only = set(args.only.split(",")) if args.only else None
    if args.check == "selftest-determinism":
        return determinism(only, args.runs)
    if args.check == "selftest-sensitivity":
        return sensitivity(only)
    if args.check.startswith("selftest-mutant="):
        return sensitivity(only, names=set(args.check.split("=", 1)[1].split(",")))
    print("unknown selftest")
    return 3

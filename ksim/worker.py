"""Worker process: reads one JSON job on stdin, writes one JSON result on the real stdout.

Started by ksim.main with a fixed PYTHONHASHSEED, single-threaded BLAS and an empty cwd.
"""
import faulthandler
import json
import os
import sys
import time


def _out(obj):
    s = json.dumps(obj, default=str)
    sys.__stdout__.write(s + "\n")
    sys.__stdout__.flush()


def main():
    job = json.loads(sys.stdin.read())
    faulthandler.enable(file=sys.__stderr__)
    mode = job["mode"]
    import numpy as np

    from . import runner
    from .core import HarnessError, h64

    t0 = time.time()
    if mode == "batch":
        from .checks import idx_of, leg_of

        root = job["root"]
        tier = job["tier"]
        idxs = range(job["start"], job["stop"], job["step"])
        wall = job.get("wall", 1e9)
        per_run_cap = job.get("run_cap", 300)
        want_digests = job.get("digests", False)
        out = {
            "n": 0, "violations": [], "stats": {}, "probes": {}, "discards": {}, "samples": [], "harness_errors": [],
            "truncated": False, "sim_time": 0.0, "n_ops": 0, "digests": [], "n_nontrivial": 0, "per_machine": {},
        }
        states = set()
        ntdig = set()
        machines = {}
        for i in idxs:
            if time.time() - t0 > wall:
                out["truncated"] = True
                break
            mname, prop = leg_of(job["check"], i)
            m = machines.get(mname)
            if m is None:
                m = machines[mname] = runner.get_machine(mname)
            seed = h64(root, i)
            try:
                with open("current_run", "w") as _f:  # (cwd is this worker's scratch directory) read by the parent if the worker dies
                    _f.write("%d %d" % (i, seed))
            except OSError:
                pass
            faulthandler.dump_traceback_later(per_run_cap, exit=True, file=sys.__stderr__)
            _t_run = time.time()
            try:
                case = m.generate(seed, tier, idx_of(job["check"], i))
                case["property"] = prop
                case["idx"] = i
                res = runner.run_case(m, case)
            except HarnessError as e:
                out["harness_errors"].append({"idx": i, "seed": seed, "trace": str(e)[-3000:]})
                faulthandler.cancel_dump_traceback_later()
                if len(out["harness_errors"]) > 5:
                    break
                continue
            except Exception as e:  # generation failure
                import traceback

                out["harness_errors"].append({"idx": i, "seed": seed, "trace": traceback.format_exc()[-3000:]})
                faulthandler.cancel_dump_traceback_later()
                if len(out["harness_errors"]) > 5:
                    break
                continue
            faulthandler.cancel_dump_traceback_later()
            _dt = time.time() - _t_run
            if _dt > out.get("slowest", [0.0])[0]:
                out["slowest"] = [round(_dt, 2), i]
            out["n"] += 1
            out["per_machine"][mname] = out["per_machine"].get(mname, 0) + 1
            out["n_ops"] += res.n_ops
            out["sim_time"] += res.sim_time
            for k, v in res.stats.items():
                out["stats"][k] = out["stats"].get(k, 0) + v
            for k, v in res.probes.items():
                out["probes"][k] = out["probes"].get(k, 0) + v
            if res.discard:
                out["discards"][res.discard] = out["discards"].get(res.discard, 0) + 1
            states |= res.states
            if res.nontrivial and not res.discard:
                out["n_nontrivial"] += 1
                ntdig.add(int(res.digest[:15], 16))
            if want_digests:
                out["digests"].append([i, res.digest])
            if len(out["samples"]) < 2 and res.nontrivial and res.violation is None:
                out["samples"].append({"idx": i, "seed": seed, "machine": mname, "knobs": case.get("knobs"), "ops": case["ops"]})
            if res.violation is not None:
                if res.derived_case is not None:
                    case = res.derived_case  # enumerated regime: the failing derived history is the replayable case
                    case["property"] = prop
                    case["idx"] = i
                if len(out["violations"]) < 40:
                    out["violations"].append({"idx": i, "seed": seed, "case": case, "violation": res.violation, "digest": res.digest,
                                              "tag": m.case_tag(case) if hasattr(m, "case_tag") else "",
                                              "fp": m.fingerprint(case, res.violation) if hasattr(m, "fingerprint") else None})
                else:
                    out["violations_dropped"] = out.get("violations_dropped", 0) + 1
        scratch = job.get("scratch")
        if scratch:
            np.array(sorted(states), dtype=np.uint64).tofile(os.path.join(scratch, "states_%d.bin" % job["wid"]))
            np.array(sorted(ntdig), dtype=np.uint64).tofile(os.path.join(scratch, "nt_%d.bin" % job["wid"]))
        out["n_states_local"] = len(states)
        out["wall"] = time.time() - t0
        _out(out)
    elif mode == "shrink":
        m = runner.get_machine(job["case"]["machine"])
        case, nruns, ok = runner.shrink(m, job["case"], tuple(job["klass"]), max_runs=job.get("max_runs", 500))
        res = runner.run_case(m, case, keep_records=True)
        fp = None
        if res.violation is not None and hasattr(m, "fingerprint"):
            fp = m.fingerprint(case, res.violation)
        if job.get("path") and res.violation is not None:
            runner.write_replay(job["path"], job["check"], case, res, job.get("hashseed"), {"shrink_runs": nruns, "fingerprint": fp})
        _out({"case": case, "violation": res.violation, "digest": res.digest, "shrink_runs": nruns, "ok": ok, "fingerprint": fp})
    elif mode == "replay":
        with open(job["path"]) as f:
            rp = json.load(f)
        m = runner.get_machine(rp["machine"])
        res = runner.run_case(m, rp["case"], keep_records=True)
        fp = None
        if res.violation is not None and hasattr(m, "fingerprint"):
            fp = m.fingerprint(rp["case"], res.violation)
        _out({"violation": res.violation, "digest": res.digest, "expected_digest": rp.get("digest"), "fingerprint": fp,
              "check": rp.get("check"), "events": res.records if job.get("events") else None})
    else:
        raise SystemExit("unknown mode %r" % mode)


if __name__ == "__main__":
    main()

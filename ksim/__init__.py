"""ksim: deterministic simulation with fault injection for kafe2 (see /verif/DESIGN.md)."""

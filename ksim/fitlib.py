"""Shared fit workload library: JSON specs -> real kafe2 fits + reference configuration (RefFit).

Used by M-COST (C01, C10), M-FITHIST (C03), M-QUERY (C08), M-REJECT (C19), M-IO (C09) and M-MULTI (C11).
Ops are plain JSON; `FitSim.apply(op)` executes one public mutator on the real fit and mirrors the *declaration*
in the reference (no kafe2 logic is re-implemented here).
"""
import importlib

import numpy as np

from . import userlib
from .refmodel.container import RefSource
from .refmodel.cost import RefConstraint, RefFit

COSTS = {
    "xy": ["chi2", "chi2", "chi2_fast", "chi2_covariance", "chi2_pointwise", "chi2_no_errors", "nll_gaussian", "nllr_gaussian", "nll", "nllr",
           "gauss_approximation", "gauss_approximation_pointwise"],
    "indexed": ["chi2", "chi2", "chi2_fast", "chi2_covariance", "chi2_pointwise", "chi2_no_errors", "nll_gaussian", "nllr_gaussian", "nll", "nllr",
                "gauss_approximation", "gauss_approximation_pointwise"],
    "hist": ["nll", "nll", "nllr", "chi2", "chi2_pointwise", "nll_gaussian", "gauss_approximation", "gauss_approximation_pointwise", "chi2_covariance"],
    "unbinned": ["nll"],
}
POISSON_LIKE = ("nll", "nllr", "nll_poisson", "nllr_poisson", "poisson", "gauss_approximation", "gauss_approximation_covariance",
                "gauss_approximation_covariance_fast", "gauss_approximation_pointwise", "gauss_approximation_pointwise_errors")
NEEDS_ERRORS = ("chi2_covariance", "chi2_covariance_fast", "chi2_pointwise", "chi2_pointwise_errors", "nll_gaussian", "nllr_gaussian")
COV_COSTS = ("chi2", "chi2_fast", "chi2_covariance", "chi2_covariance_fast", "gauss_approximation", "gauss_approximation_covariance",
             "gauss_approximation_covariance_fast")


def kf():
    return importlib.import_module("kafe2.fit")


def _round(v, nd=3):
    return float(np.round(v, nd))


# ----------------------------------------------------------------------------------------------- generation


def gen_new(rng, ftype, cost=None, nmax=8, minimizer=None, numerical_ok=False, models=None):
    """Draw a construction spec (data + model + cost) for a fit of type ftype."""
    cost = cost or rng.choice(COSTS[ftype])
    spec = {"type": ftype, "cost": cost, "minimizer": minimizer or rng.choice(["iminuit", "iminuit", "scipy"]), "dea": rng.choice(["nonlinear", "nonlinear", "iterative"])}
    poisson = cost in POISSON_LIKE
    spec["tiny"] = (not poisson) and ftype in ("xy", "indexed") and rng.random() < 0.12  # uncertainties of order 1e-5 (units!)
    crossing = (not poisson) and rng.random() < 0.3  # data / model values of both signs
    if ftype == "xy":
        n = rng.randint(2, min(nmax, 9) if poisson else min(nmax, 13))
        mk = rng.choice(models or (["linear", "quadratic", "expo", "quadratic", "linear"] if poisson else ["linear", "quadratic", "expo", "sine", "recip"]))
        f, df, d3, names, dflt = userlib.XY_MODELS[mk]
        # kafe2 applies the Poisson data check to the whole (x, y) array of an xy fit: x must be a non-negative integer too
        xs = sorted(rng.sample([float(i) for i in range(0, 9)], n)) if poisson else sorted(rng.sample([0.5 * i for i in range(1, 14)], n))
        ptrue = [_round(v * rng.choice([0.8, 1.0, 1.2])) for v in dflt]
        if crossing and mk in ("linear", "quadratic", "sine", "recip", "linear_ac"):
            ym0 = f(np.array(xs), *ptrue)
            ptrue[-1] = _round(ptrue[-1] - float(np.median(ym0)) - 0.37)  # offset parameter: values cross zero, none is exactly zero
        ym = f(np.array(xs), *ptrue)
        if poisson:
            ys = [float(max(0, int(round(v * 3 + rng.choice([-1, 0, 0, 1, 2]))))) for v in ym]
            ptrue = [ptrue[0] * 3] + ptrue[1:] if mk == "expo" else [v * 3 for v in ptrue]
        else:
            ys = [_round(v + rng.choice([-0.3, -0.1, 0.0, 0.1, 0.2, 0.4])) for v in ym]
        spec.update({"model": mk, "x": xs, "y": ys, "ptrue": ptrue})
    elif ftype == "indexed":
        n = rng.randint(2, nmax)
        mk = rng.choice(models or ["affine", "power", "three"])
        f, names, dflt, pure = userlib.make_indexed(n, mk)
        ptrue = [_round(v * rng.choice([0.8, 1.0, 1.2])) for v in dflt]
        if crossing and mk in ("affine", "three"):
            ptrue[-1] = _round(ptrue[-1] - float(np.median(pure(*ptrue))) - 0.37)
        ym = pure(*ptrue)
        if poisson:
            ys = [float(max(0, int(round(v + rng.choice([-1, 0, 0, 1, 2]))))) for v in ym]
        else:
            ys = [_round(v + rng.choice([-0.3, -0.1, 0.0, 0.1, 0.2, 0.4])) for v in ym]
        spec.update({"model": mk, "n": n, "d": ys, "ptrue": ptrue})
    elif ftype == "hist":
        nb = rng.randint(2, min(nmax, 7))
        mk = rng.choice(["normal", "normal", "expon", "mix"])
        if mk == "expon":
            edges = [_round(0.6 * i) for i in range(nb + 1)]
        else:
            lo = rng.choice([-3.0, -2.5, -2.0])
            w = rng.choice([0.5, 0.75, 1.0])
            edges = [_round(lo + w * i) for i in range(nb + 1)]
            if rng.random() < 0.3 and nb >= 3:
                edges[1] = _round(0.5 * (edges[0] + edges[2]) - 0.1)
        pdf, cdf, names, dflt = userlib.DENSITIES[mk]
        nent = rng.randint(15, 60)
        span = edges[-1] - edges[0]
        ents = [_round(edges[0] - 0.1 * span + (1.2 * span) * rng.random(), 4) for _ in range(nent)]
        spec.update({"model": mk, "edges": edges, "entries": ents, "ptrue": list(dflt), "bin_eval": rng.choice(["antiderivative", "antiderivative", "numerical", "simpson", "trapezoid", "rectangle"]),
                     "as_numpy": rng.random() < 0.25})
        if spec["bin_eval"] == "numerical" and not numerical_ok:
            spec["bin_eval"] = "simpson"  # numerical quadrature makes every cost evaluation ~ms x bins: fits take minutes; only fit-free machines use it
    else:
        mk = rng.choice(["normal", "expon"])
        pdf, cdf, names, dflt = userlib.DENSITIES[mk]
        n = rng.randint(3, 3 * nmax)
        if mk == "expon":
            ents = [_round(0.05 + 4.0 * rng.random(), 4) for _ in range(n)]
        else:
            ents = [_round(-2.5 + 5.0 * rng.random(), 4) for _ in range(n)]
        spec.update({"model": mk, "d": ents, "ptrue": list(dflt)})
    return spec


def par_names(spec):
    if spec["type"] == "xy":
        return list(userlib.XY_MODELS[spec["model"]][3])
    if spec["type"] == "indexed":
        return list(userlib.make_indexed(2, spec["model"])[1])
    return list(userlib.DENSITIES[spec["model"]][2])


def size_of(spec):
    t = spec["type"]
    if t == "xy":
        return len(spec["x"])
    if t == "indexed":
        return len(spec["d"])
    if t == "hist":
        return len(spec["edges"]) - 1
    return len(spec["d"])


def gen_errval(rng, n, rel, tiny=False):
    base = [0.02, 0.05, 0.1] if rel else [0.1, 0.2, 0.3, 0.5]
    if tiny:
        base = [2e-5, 5e-5, 1e-5] if not rel else [1e-5, 2e-5]
    if rng.random() < 0.45:
        return float(rng.choice(base))
    return [float(rng.choice(base)) for _ in range(n)]


def gen_source(rng, spec, idx, allow_model=True, force=None):
    """Draw an add_error / add_matrix_error op."""
    n = size_of(spec)
    t = spec["type"]
    axis = None
    if t == "xy":
        axis = rng.choice(["y", "y", "y", "x", 1, 0])
    ref = "model" if (allow_model and rng.random() < 0.3) else "data"
    rel = rng.random() < 0.35
    name = "s%d" % idx if rng.random() < 0.7 else None
    via = "fit"
    if ref == "data" and rng.random() < 0.2:
        via = "container"
    kind = "simple" if rng.random() < 0.7 else "matrix"
    if force:
        kind = force.get("kind", kind)
        ref = force.get("ref", ref)
        rel = force.get("rel", rel)
        axis = force.get("axis", axis)
    if kind == "matrix" and ref == "model" and rel:
        rel = False  # documented NotImplementedError in kafe2
    tiny = bool(spec.get("tiny"))
    if kind == "simple":
        return ["add_error", {"axis": axis, "err": gen_errval(rng, n, rel, tiny), "corr": rng.choice([0.0, 0.0, 0.0, 0.3, 1.0, 0.6]), "rel": rel, "ref": ref, "name": name, "via": via}]
    if rng.random() < 0.5:
        k = rng.randint(1, n)
        B = np.array([[rng.choice([-0.2, -0.1, 0.0, 0.1, 0.2, 0.05]) for _ in range(k)] for _ in range(n)])
        sc = (0.2 if rel else 1.0) * (1e-9 if tiny else 1.0)
        M = (B.dot(B.T) + np.diag([rng.choice([0.01, 0.02, 0.04]) for _ in range(n)])) * sc
        M = 0.5 * (M + M.T)
        return ["add_matrix_error", {"axis": axis, "mtype": "cov", "mat": (M if tiny else np.round(M, 6)).tolist(), "err": None, "rel": rel, "ref": ref, "name": name, "via": via}]
    c = rng.choice([0.0, 0.2, 0.5, 0.8])
    M = np.full((n, n), c)
    np.fill_diagonal(M, 1.0)
    ev = gen_errval(rng, n, rel, tiny)
    if not isinstance(ev, list):
        ev = [ev] * n
    return ["add_matrix_error", {"axis": axis, "mtype": "cor", "mat": M.tolist(), "err": ev, "rel": rel, "ref": ref, "name": name, "via": via}]


def gen_new_data(rng, spec):
    t = spec["type"]
    if t == "xy":
        poisson = spec["cost"] in POISSON_LIKE
        xs = list(spec["x"])
        if rng.random() < 0.7:  # different support points (x-dependent nodes must follow)
            xs = sorted(set([float(v + rng.choice([0.0, 1.0, 2.0])) if poisson else round(v + rng.choice([0.0, 0.25, -0.25, 0.4]), 3) for v in xs]))
            while len(xs) < len(spec["x"]):
                xs.append(xs[-1] + 1.0)
        out = {"x": xs, "y": [round(v + rng.choice([-0.2, 0.1, 0.3]) if not spec["cost"] in POISSON_LIKE else v + rng.choice([0, 1, 2]), 3) for v in spec["y"]]}
        return _with_sources(rng, spec, out)
    if t == "indexed":
        out = {"d": [round(v + rng.choice([-0.2, 0.1, 0.3]) if not spec["cost"] in POISSON_LIKE else v + rng.choice([0, 1, 2]), 3) for v in spec["d"]]}
        return _with_sources(rng, spec, out)
    if t == "hist":
        return {"entries": [round(v + rng.choice([-0.1, 0.0, 0.1]), 4) for v in spec["entries"]][: max(5, len(spec["entries"]) - 3)]}
    return {"d": [round(v + rng.choice([-0.1, 0.0, 0.1]), 4) for v in spec["d"]]}

def _with_sources(rng, spec, out):
    """The replacement may be a container that brings its own (possibly correlated) uncertainty sources."""
    if spec["cost"] in POISSON_LIKE or spec["cost"] == "chi2_no_errors" or rng.random() < 0.5:
        return out
    srcs = []
    base = gen_source(rng, spec, 0, allow_model=False, force={"kind": "simple", "axis": "y" if spec["type"] == "xy" else None, "ref": "data", "rel": False})
    base[1]["corr"] = rng.choice([0.0, 0.3, 0.6])
    base[1]["name"] = "n0"
    srcs.append(base)
    if rng.random() < 0.4:
        op = gen_source(rng, spec, 1, allow_model=False, force={"ref": "data"})
        op[1]["name"] = "n1"
        srcs.append(op)
    out["sources"] = srcs
    return out



def gen_constraint(rng, spec):
    names = par_names(spec)
    pt = spec["ptrue"]
    if rng.random() < 0.6 or len(names) < 2:
        i = rng.randrange(len(names))
        v = _round(pt[i] * rng.choice([0.9, 1.0, 1.1]) + (0.1 if pt[i] == 0 else 0.0))
        rel = rng.random() < 0.4 and v != 0
        return ["constraint", {"par": names[i], "value": v, "unc": rng.choice([0.05, 0.1, 0.3]) if rel else rng.choice([0.1, 0.5, 1.0]), "rel": rel}]
    k = rng.randint(2, len(names))
    idx = sorted(rng.sample(range(len(names)), k))
    vals = [_round(pt[i] * rng.choice([0.9, 1.0, 1.1]) + (0.1 if pt[i] == 0 else 0.0)) for i in idx]
    rel = rng.random() < 0.4 and all(v != 0 for v in vals)
    if rng.random() < 0.5:
        B = np.array([[rng.choice([-0.3, 0.1, 0.2, 0.4]) for _ in range(k)] for _ in range(k)])
        M = B.dot(B.T) + np.eye(k) * 0.1
        M = np.round(0.5 * (M + M.T), 6)
        if rel:
            M = M * 0.05
        return ["mconstraint", {"pars": [names[i] for i in idx], "values": vals, "mat": M.tolist(), "mtype": "cov", "unc": None, "rel": rel}]
    c = rng.choice([0.0, 0.3, -0.3, 0.7])
    M = np.full((k, k), c)
    np.fill_diagonal(M, 1.0)
    if k > 2 and c < 0:
        M = np.abs(M)
    unc = [rng.choice([0.05, 0.1]) if rel else rng.choice([0.1, 0.5, 1.0]) for _ in range(k)]
    return ["mconstraint", {"pars": [names[i] for i in idx], "values": vals, "mat": M.tolist(), "mtype": "cor", "unc": unc, "rel": rel}]


def gen_point(rng, spec, spread=0.15):
    """A parameter point near ptrue (keeps Poisson models positive and optima interior)."""
    return [_round(v * (1.0 + spread * (2 * rng.random() - 1)) + (0.05 * (2 * rng.random() - 1) if v == 0 else 0.0), 4) for v in spec["ptrue"]]


# ----------------------------------------------------------------------------------------------- execution


class NotApplicable(Exception):
    pass


class FitSim(object):
    """One real fit + its declared reference configuration."""

    def __init__(self, spec, pre_sources=()):
        self.spec = spec
        self.names = []  # declaration index -> real source name
        self.src_where = []  # 'data' | 'model'
        self.ref = RefFit(spec["type"], spec["cost"])
        self.fit = None
        self.limited = set()
        self._build(pre_sources)

    # -- construction
    def _build(self, pre_sources):
        K = kf()
        spec = self.spec
        t = spec["type"]
        ref = self.ref
        kw = dict(cost_function=spec["cost"], minimizer=spec["minimizer"])
        if spec.get("nodet"):
            # the documented option add_determinant_cost=False: the cost function is handed over as an object
            fcls = {"xy": K.XYFit, "indexed": K.IndexedFit, "hist": K.HistFit}[t]
            ccls, ckw = fcls._STRING_TO_COST_FUNCTION[spec["cost"]]
            kw["cost_function"] = ccls(**dict(ckw, add_determinant_cost=False))
            ref.add_det = False
            ref.cost_object = True
        if t == "xy":
            f, df, d3, names, dflt = userlib.XY_MODELS[spec["model"]]
            x = np.array(spec["x"], dtype=float)
            ref.x = x
            ref.d = np.array(spec["y"], dtype=float)
            ref.model = lambda p: np.asarray(_pure_xy(spec["model"])(x, *p), dtype=float)
            ref.dmodel_dx = df
            ref.d3model_dx3 = d3
            ref.par_names = list(names)
            data = K.XYContainer(list(spec["x"]), list(spec["y"])) if pre_sources or spec.get("as_container") else [list(spec["x"]), list(spec["y"])]
            cont = data if not isinstance(data, list) else None
            self._pre(cont, pre_sources)
            self.fit = K.XYFit(data, f, dynamic_error_algorithm=spec["dea"], **kw)
        elif t == "indexed":
            n = len(spec["d"])
            f, names, dflt, pure = userlib.make_indexed(n, spec["model"])
            ref.d = np.array(spec["d"], dtype=float)
            ref.model = lambda p: np.asarray(pure(*p), dtype=float)
            ref.par_names = list(names)
            data = K.IndexedContainer(list(spec["d"])) if pre_sources or spec.get("as_container") else list(spec["d"])
            cont = data if not isinstance(data, list) else None
            self._pre(cont, pre_sources)
            self.fit = K.IndexedFit(data, f, dynamic_error_algorithm=spec["dea"], **kw)
        elif t == "hist":
            pdf, cdf, names, dflt = userlib.DENSITIES[spec["model"]]
            e = np.array(spec["edges"], dtype=float)
            ents = list(spec["entries"])
            cnt = np.zeros(len(e) - 1)
            for v in ents:
                if e[0] <= v < e[-1]:
                    cnt[int(np.searchsorted(e, v, side="right")) - 1] += 1
            ref.edges = e
            ref.d = cnt
            be = spec["bin_eval"]
            if spec.get("as_numpy") and not pre_sources:
                data = (cnt.copy(), e.copy())
                ref.n_entries = float(np.sum(cnt))
                cont = None
            else:
                data = K.HistContainer(bin_edges=list(spec["edges"]), fill_data=ents)
                ref.n_entries = float(len(ents))
                cont = data
            ref.hist_unscaled = lambda p: np.asarray(cdf(e[1:], *p)) - np.asarray(cdf(e[:-1], *p))
            ref.model = lambda p: ref.n_entries * ref.hist_unscaled(p)
            ref.par_names = list(names)
            self._pre(cont, pre_sources)
            self.fit = K.HistFit(data, pdf, bin_evaluation=(cdf if be == "antiderivative" else be), density=True, dynamic_error_algorithm=spec["dea"], **kw)
        else:
            pdf, cdf, names, dflt = userlib.DENSITIES[spec["model"]]
            s = np.array(spec["d"], dtype=float)
            ref.d = s
            ref.model = lambda p: np.asarray(_pure_pdf(spec["model"])(s, *p), dtype=float)
            ref.par_names = list(names)
            self.fit = K.UnbinnedFit(list(spec["d"]), pdf, cost_function=spec["cost"], minimizer=spec["minimizer"])
        ref.n_par = len(ref.par_names)

    def _pre(self, cont, pre_sources):
        """Sources added to the container *before* it is handed to the fit (kafe2 deep-copies it)."""
        for op in pre_sources:
            if cont is None:
                raise NotApplicable("pre-sources need a container")
            a = op[1]
            self._declare(op)
            if op[0] == "add_error":
                kw = dict(err_val=a["err"], name=a["name"], correlation=a["corr"], relative=a["rel"])
                rn = cont.add_error(a["axis"], **kw) if self.spec["type"] == "xy" else cont.add_error(**kw)
            else:
                kw = dict(err_matrix=np.array(a["mat"]), matrix_type=a["mtype"], name=a["name"], err_val=(None if a["err"] is None else np.array(a["err"])), relative=a["rel"])
                rn = cont.add_matrix_error(a["axis"], **kw) if self.spec["type"] == "xy" else cont.add_matrix_error(**kw)
            self.names.append(rn)
            self.src_where.append("data")

    # -- reference declaration of a source
    def _declare(self, op):
        a = op[1]
        n = size_of(self.spec)
        ax = 1
        if self.spec["type"] == "xy":
            ax = {"x": 0, "y": 1, 0: 0, 1: 1, "0": 0, "1": 1}[a["axis"]]
        if op[0] == "add_error":
            ev = a["err"]
            evn = np.ones(n) * ev if not isinstance(ev, list) else np.array(ev, dtype=float)
            if evn.shape != (n,):
                raise NotApplicable("size")
            s = RefSource(None, ax, "simple", a["rel"], err=evn, corr=a["corr"])
        else:
            M = np.array(a["mat"], dtype=float)
            if M.shape != (n, n):
                raise NotApplicable("size")
            ev = None if a["err"] is None else np.array(a["err"], dtype=float)
            if ev is not None and ev.shape != (n,):
                raise NotApplicable("size")
            s = RefSource(None, ax, "matrix", a["rel"], err=ev, mat=M, mtype=a["mtype"])
        self.ref.sources.append((s, a["ref"]))
        self._prev_implicit_gone = self.ref.implicit_gone
        self.ref.implicit_gone = True  # the documented chi2-without-errors stand-in ends with the first declared source (one-way in kafe2)
        return s

    def _undeclare(self):
        self.ref.sources.pop()
        self.ref.implicit_gone = getattr(self, "_prev_implicit_gone", self.ref.implicit_gone)

    # -- one public mutator
    def apply(self, op):
        """Execute op on the real fit and mirror it in the reference.  Raises NotApplicable if preconditions fail."""
        fit, ref, spec = self.fit, self.ref, self.spec
        k = op[0]
        a = op[1] if len(op) > 1 else None
        if k in ("add_error", "add_matrix_error"):
            if spec["type"] == "unbinned":
                raise NotApplicable("unbinned fits take no sources")
            if a["name"] is not None and a["name"] in self.names:
                raise NotApplicable("duplicate name")
            if k == "add_matrix_error" and a["ref"] == "model" and a["rel"]:
                raise NotApplicable("documented NotImplementedError")
            if a["via"] == "container" and a["ref"] != "data":
                raise NotApplicable("container path is data-only")
            s = self._declare(op)
            try:
                if k == "add_error":
                    kw = dict(err_val=a["err"], name=a["name"], correlation=a["corr"], relative=a["rel"])
                    if a["via"] == "container":
                        rn = fit.data_container.add_error(a["axis"], **kw) if spec["type"] == "xy" else fit.data_container.add_error(**kw)
                    else:
                        kw["reference"] = a["ref"]
                        rn = fit.add_error(a["axis"], **kw) if spec["type"] == "xy" else fit.add_error(**kw)
                else:
                    kw = dict(err_matrix=np.array(a["mat"]), matrix_type=a["mtype"], name=a["name"], err_val=(None if a["err"] is None else np.array(a["err"])), relative=a["rel"])
                    if a["via"] == "container":
                        rn = fit.data_container.add_matrix_error(a["axis"], **kw) if spec["type"] == "xy" else fit.data_container.add_matrix_error(**kw)
                    else:
                        kw["reference"] = a["ref"]
                        rn = fit.add_matrix_error(a["axis"], **kw) if spec["type"] == "xy" else fit.add_matrix_error(**kw)
            except BaseException:
                self._undeclare()
                raise
            s.name = rn
            self.names.append(rn)
            self.src_where.append(a["ref"])
            return rn
        if k in ("disable", "enable"):
            if a >= len(self.names):
                raise NotApplicable("no such source")
            getattr(fit, k + "_error")(self.names[a])
            ref.sources[a][0].enabled = k == "enable"
            return None
        if k == "constraint":
            if a["par"] not in ref.par_names:
                raise NotApplicable("par")
            fit.add_parameter_constraint(a["par"], a["value"], a["unc"], relative=a["rel"])
            ref.constraints.append(RefConstraint("simple", ref.par_names.index(a["par"]), a["value"], unc=a["unc"], rel=a["rel"]))
            return None
        if k == "mconstraint":
            if any(p not in ref.par_names for p in a["pars"]):
                raise NotApplicable("par")
            fit.add_matrix_parameter_constraint(list(a["pars"]), list(a["values"]), np.array(a["mat"]), matrix_type=a["mtype"],
                                                uncertainties=(None if a["unc"] is None else list(a["unc"])), relative=a["rel"])
            ref.constraints.append(RefConstraint("matrix", [ref.par_names.index(p) for p in a["pars"]], a["values"], unc=a["unc"], mat=a["mat"],
                                                 mtype=a["mtype"], rel=a["rel"]))
            return None
        if k == "set":
            if any(p not in ref.par_names for p in a):
                raise NotApplicable("par")
            fit.set_parameter_values(**a)
            return None
        if k == "set_all":
            if len(a) != ref.n_par:
                raise NotApplicable("len")
            fit.set_all_parameter_values(list(a))
            return None
        if k == "fix":
            name, val = a
            if name not in ref.par_names:
                raise NotApplicable("par")
            fit.fix_parameter(name, val)
            ref.fixed[name] = True
            return None
        if k == "release":
            if a not in ref.fixed:
                raise NotApplicable("not fixed")
            fit.release_parameter(a)
            ref.fixed.pop(a, None)
            return None
        if k == "limit":
            name, lo, hi = a
            if name not in ref.par_names:
                raise NotApplicable("par")
            fit.limit_parameter(name, lo, hi)
            self.limited.add(name)
            return None
        if k == "unlimit":
            if a not in ref.par_names or a not in self.limited:
                raise NotApplicable("not limited")
            fit.unlimit_parameter(a)
            self.limited.discard(a)
            return None
        if k == "set_data":
            t = self.spec["type"]
            if any(w == "model" for w in self.src_where):
                raise NotApplicable("model sources present")
            if t == "xy":
                if len(a["x"]) != len(a["y"]) or len(a["x"]) != len(self.ref.d):
                    raise NotApplicable("size")
                newdata = [list(a["x"]), list(a["y"])]
                self.ref.d = np.array(a["y"], dtype=float)
                xs = np.array(a["x"], dtype=float)
                self.ref.x = xs
                mk = self.spec["model"]
                self.ref.model = lambda p, xs=xs, mk=mk: np.asarray(_pure_xy(mk)(xs, *p), dtype=float)
            elif t == "indexed":
                newdata = list(a["d"])
                self.ref.d = np.array(a["d"], dtype=float)
            elif t == "hist":
                K = kf()
                e = self.ref.edges
                fit.data = K.HistContainer(bin_edges=list(e), fill_data=list(a["entries"]))
                cnt = np.zeros(len(e) - 1)
                for v in a["entries"]:
                    if e[0] <= v < e[-1]:
                        cnt[int(np.searchsorted(e, v, side="right")) - 1] += 1
                self.ref.d = cnt
                self.ref.n_entries = float(len(a["entries"]))
            else:
                fit.data = list(a["d"])
                s = np.array(a["d"], dtype=float)
                self.ref.d = s
                mk = self.spec["model"]
                self.ref.model = lambda p, s=s, mk=mk: np.asarray(_pure_pdf(mk)(s, *p), dtype=float)
            # the new container carries only its own sources; kafe2 builds a new parametric model as well
            self.ref.sources = []
            self.names = []
            self.src_where = []
            if t in ("xy", "indexed"):
                if a.get("sources"):
                    K = kf()
                    cont = K.XYContainer(newdata[0], newdata[1]) if t == "xy" else K.IndexedContainer(newdata)
                    self._pre(cont, a["sources"])
                    newdata = cont
                fit.data = newdata
            return
        raise NotApplicable("unknown op %s" % k)

    # -- domain checks (exclusions the properties themselves make)
    def domain_ok(self, p):
        """Positive-definite, well-conditioned total where the cost needs it; positive Poisson means."""
        ref = self.ref
        cid = ref.effective_cost_id()
        try:
            m = np.asarray(ref.model(p), dtype=float)
        except Exception:
            return "model"
        if not np.all(np.isfinite(m)):
            return "model-not-finite"
        if cid in POISSON_LIKE or ref.ftype == "unbinned":
            if np.any(m <= 1e-9):
                return "non-positive-model"
        if ref.ftype == "unbinned" or cid in ("chi2_no_errors", "nll", "nllr", "nll_poisson", "nllr_poisson", "poisson"):
            return None
        V = ref.total_cov(p)
        if cid.startswith("gauss_approximation"):
            if not ref.has_enabled() and not ref.has_sources():
                V = V + np.diag(m)
            else:
                V = V + np.diag(m)
            need_pd = True
        else:
            need_pd = True
        if cid in ("chi2", "chi2_fast") and ref.has_sources() and not ref.has_enabled():
            return "all-sources-disabled"
        if need_pd:
            if not np.all(np.isfinite(V)):
                return "cov-not-finite"
            ev = np.linalg.eigvalsh(0.5 * (V + V.T))
            if ev.min() <= 0 or ev.max() / ev.min() > 1e7:
                return "cov-not-pd-or-ill-conditioned"
            if np.any(np.diag(V) <= 0):
                return "zero-pointwise-error"
        return None


def _pure_xy(mk):
    return {
        "linear": lambda x, a, b: a * x + b,
        "linear_ac": lambda x, a, c: a * x + c,
        "linear_cb": lambda x, c, b: b * x + c,
        "quadratic": lambda x, a, b, c: a * x * x + b * x + c,
        "expo": lambda x, A, k: A * np.exp(k * x),
        "sine": lambda x, A, w, c: A * np.sin(w * x) + c,
        "recip": lambda x, a, b: a / (1.0 + x * x) + b,
    }[mk]


def _pure_pdf(mk):
    return {
        "normal": lambda x, mu, s: np.exp(-0.5 * ((x - mu) / s) ** 2) / np.sqrt(2.0 * np.pi * s**2),
        "expon": lambda x, tau: np.exp(-x / tau) / tau,
        "mix": lambda x, mu, s, f: f * np.exp(-0.5 * ((x - mu) / s) ** 2) / np.sqrt(2.0 * np.pi * s**2) + (1 - f) * 0.1 * np.ones_like(x),
    }[mk]
